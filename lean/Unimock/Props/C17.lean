import Unimock.Model.Output
import Unimock.Lemmas.OutputKind
/-!
# C17 — composite returns reproduce the configured value shape-for-shape

Statement (properties.jsonl): for methods returning Option, Result, Vec, Poll or tuples — nested, and
mixing owned parts with parts borrowed from self — the value the caller observes is structurally equal
to the value passed to returns(): same variant, same element order and count, same leaf values,
borrowed leaves pointing into the mock. Borrowed leaves can be returned on every call; owned leaves
are single-use exactly when the response was configured through a single-use path (see C12).
-/
namespace Unimock.Output

mutual
/-- **C17, repeatable path: every call reproduces the configured value and leaves the store intact.**
    For every kind, every value it accepts, at any nesting depth. -/
theorem C17_roundtrip : (v : Val) → ∀ (k : Kind) (s : Stored), intoReturn false k v = some s → output s = (some v, s)
  | .leaf n, k, s, h => by
    cases k <;> simp [intoReturn] at h <;> subst h <;> simp [output]
  | .none, k, s, h => by
    cases k <;> simp [intoReturn] at h <;> subst h <;> simp [output]
  | .pending, k, s, h => by
    cases k <;> simp [intoReturn] at h <;> subst h <;> simp [output]
  | .some v, k, s, h => by
    cases k <;> simp [intoReturn] at h
    · subst h; simp [output]
    · subst h; simp [output]
    · subst h; simp [output]
    · subst h; simp [output]
    · obtain ⟨s', hs', rfl⟩ := h
      simp [output, C17_roundtrip v _ s' hs']
  | .ok v, k, s, h => by
    cases k <;> simp [intoReturn] at h
    · subst h; simp [output]
    · subst h; simp [output]
    · subst h; simp [output]
    · subst h; simp [output]
    · obtain ⟨s', hs', rfl⟩ := h
      simp [output, C17_roundtrip v _ s' hs']
  | .err v, k, s, h => by
    cases k <;> simp [intoReturn] at h
    · subst h; simp [output]
    · subst h; simp [output]
    · subst h; simp [output]
    · subst h; simp [output]
    · obtain ⟨s', hs', rfl⟩ := h
      simp [output, C17_roundtrip v _ s' hs']
  | .ready v, k, s, h => by
    cases k <;> simp [intoReturn] at h
    · subst h; simp [output]
    · subst h; simp [output]
    · subst h; simp [output]
    · obtain ⟨s', hs', rfl⟩ := h
      simp [output, C17_roundtrip v _ s' hs']
  | .vec vs, k, s, h => by
    cases k <;> simp [intoReturn] at h
    · subst h; simp [output]
    · subst h; simp [output]
    · subst h; simp [output]
    · subst h; simp [output, C17_lent_list vs]
    · obtain ⟨ss, hss, rfl⟩ := h
      simp [output, C17_roundtrip_all vs _ ss hss]
  | .tup vs, k, s, h => by
    cases k <;> simp [intoReturn] at h
    · subst h; simp [output]
    · subst h; simp [output]
    · subst h; simp [output]
    · obtain ⟨ss, hss, rfl⟩ := h
      simp [output, C17_roundtrip_zip vs _ ss hss]
theorem C17_lent_list : (vs : ValList) → outputList (lentList vs) = (some vs, lentList vs)
  | .nil => by simp [lentList, outputList]
  | .cons v vs => by simp [lentList, outputList, output, C17_lent_list vs]
theorem C17_roundtrip_all : (vs : ValList) → ∀ (k : Kind) (ss : StoredList),
    intoReturnAll false k vs = some ss → outputList ss = (some vs, ss)
  | .nil, k, ss, h => by simp [intoReturnAll] at h; subst h; simp [outputList]
  | .cons v vs, k, ss, h => by
    simp only [intoReturnAll] at h
    cases h1 : intoReturn false k v with
    | none => simp [h1] at h
    | some s =>
      cases h2 : intoReturnAll false k vs with
      | none => simp [h1, h2] at h
      | some ss' =>
        simp [h1, h2] at h; subst h
        simp [outputList, C17_roundtrip v k s h1, C17_roundtrip_all vs k ss' h2]
theorem C17_roundtrip_zip : (vs : ValList) → ∀ (ks : KindList) (ss : StoredList),
    intoReturnZip false ks vs = some ss → outputList ss = (some vs, ss)
  | .nil, ks, ss, h => by cases ks <;> simp [intoReturnZip] at h; subst h; simp [outputList]
  | .cons v vs, ks, ss, h => by
    cases ks with
    | nil => simp [intoReturnZip] at h
    | cons k ks =>
      simp only [intoReturnZip] at h
      cases h1 : intoReturn false k v with
      | none => simp [h1] at h
      | some s =>
        cases h2 : intoReturnZip false ks vs with
        | none => simp [h1, h2] at h
        | some ss' =>
          simp [h1, h2] at h; subst h
          simp [outputList, C17_roundtrip v k s h1, C17_roundtrip_zip vs ks ss' h2]
end

/-- what the single-use path guarantees for one stored value -/
def OnceSpec (has : Bool) (v : Val) (s : Stored) : Prop :=
  (output s).1 = some v ∧
  (output (output s).2).1 = (if has then none else some v) ∧
  (has = false → (output s).2 = s)

def OnceSpecList (has : Bool) (vs : ValList) (ss : StoredList) : Prop :=
  (outputList ss).1 = some vs ∧
  (outputList (outputList ss).2).1 = (if has then none else some vs) ∧
  (has = false → (outputList ss).2 = ss)

theorem onceSpec_wrap (f : Val → Val) (g : Stored → Stored) (has : Bool) (v : Val) (s : Stored)
    (hout : ∀ x, output (g x) = ((output x).1.map f, g (output x).2)) (h : OnceSpec has v s) :
    OnceSpec has (f v) (g s) := by
  obtain ⟨h1, h2, h3⟩ := h
  refine ⟨by rw [hout, h1]; rfl, ?_, ?_⟩
  · rw [hout]; simp only; rw [hout, h2]; cases has <;> rfl
  · intro hh; rw [hout]; simp only; rw [h3 hh]

theorem onceSpecList_cons (h1 h2 : Bool) (v : Val) (vs : ValList) (s : Stored) (ss : StoredList)
    (hv : OnceSpec h1 v s) (hvs : OnceSpecList h2 vs ss) :
    OnceSpecList (h1 || h2) (.cons v vs) (.cons s ss) := by
  obtain ⟨a1, a2, a3⟩ := hv
  obtain ⟨b1, b2, b3⟩ := hvs
  unfold OnceSpecList
  have e1 : outputList (.cons s ss) = (some (.cons v vs), .cons (output s).2 (outputList ss).2) := by
    simp [outputList, a1, b1]
  rw [e1]
  refine ⟨rfl, ?_, ?_⟩
  · simp only
    cases h1 with
    | true =>
      simp only [Bool.true_or, ↓reduceIte] at a2 ⊢
      simp [outputList, a2]
    | false =>
      simp only [Bool.false_or, Bool.false_eq_true, ↓reduceIte] at a2 ⊢
      simp only [outputList, a2]
      rw [b2]; cases h2 <;> rfl
  · intro hh
    have hh1 : h1 = false := by cases h1 <;> simp_all
    have hh2 : h2 = false := by cases h2 <;> simp_all
    simp only
    rw [a3 hh1, b3 hh2]

mutual
/-- **C17/C12, single-use path.** A value stored through `into_return_once` is reproduced exactly on
    the first call; the second call fails (⇒ `CannotReturnValueMoreThanOnce`) **iff** the configured
    value has an owned leaf on its populated path — `None`, `Pending`, an empty `Vec`, an `Ok(&T)` of a
    shallow result and all-borrowed shapes stay repeatable and leave the store unchanged. -/
theorem C17_once : (v : Val) → ∀ (k : Kind) (s : Stored), intoReturn true k v = some s → OnceSpec (hasOwned k v) v s
  | .leaf n, k, s, h => by
    cases k <;> simp [intoReturn] at h <;> subst h <;> simp [OnceSpec, output, hasOwned]
  | .none, k, s, h => by
    cases k <;> simp [intoReturn] at h <;> subst h <;> simp [OnceSpec, output, hasOwned]
  | .pending, k, s, h => by
    cases k <;> simp [intoReturn] at h <;> subst h <;> simp [OnceSpec, output, hasOwned]
  | .some v, k, s, h => by
    cases k <;> simp [intoReturn] at h
    · subst h; simp [OnceSpec, output, hasOwned]
    · subst h; simp [OnceSpec, output, hasOwned]
    · subst h; simp [OnceSpec, output, hasOwned]
    · subst h; simp [OnceSpec, output, hasOwned]
    · obtain ⟨s', hs', rfl⟩ := h
      simp only [hasOwned]
      exact onceSpec_wrap Val.some Stored.some _ v s' (fun x => by simp [output]) (C17_once v _ s' hs')
  | .ok v, k, s, h => by
    cases k <;> simp [intoReturn] at h
    · subst h; simp [OnceSpec, output, hasOwned]
    · subst h; simp [OnceSpec, output, hasOwned]
    · subst h; simp [OnceSpec, output, hasOwned]
    · subst h; simp [OnceSpec, output, hasOwned]
    · obtain ⟨s', hs', rfl⟩ := h
      simp only [hasOwned]
      exact onceSpec_wrap Val.ok Stored.ok _ v s' (fun x => by simp [output]) (C17_once v _ s' hs')
  | .err v, k, s, h => by
    cases k <;> simp [intoReturn] at h
    · subst h; simp [OnceSpec, output, hasOwned]
    · subst h; simp [OnceSpec, output, hasOwned]
    · subst h; simp [OnceSpec, output, hasOwned]
    · subst h; simp [OnceSpec, output, hasOwned]
    · obtain ⟨s', hs', rfl⟩ := h
      simp only [hasOwned]
      exact onceSpec_wrap Val.err Stored.err _ v s' (fun x => by simp [output]) (C17_once v _ s' hs')
  | .ready v, k, s, h => by
    cases k <;> simp [intoReturn] at h
    · subst h; simp [OnceSpec, output, hasOwned]
    · subst h; simp [OnceSpec, output, hasOwned]
    · subst h; simp [OnceSpec, output, hasOwned]
    · obtain ⟨s', hs', rfl⟩ := h
      simp only [hasOwned]
      exact onceSpec_wrap Val.ready Stored.ready _ v s' (fun x => by simp [output]) (C17_once v _ s' hs')
  | .vec vs, k, s, h => by
    cases k <;> simp [intoReturn] at h
    · subst h; simp [OnceSpec, output, hasOwned]
    · subst h; simp [OnceSpec, output, hasOwned]
    · subst h; simp [OnceSpec, output, hasOwned]
    · subst h; simp [OnceSpec, output, hasOwned, C17_lent_list vs]
    · obtain ⟨ss, hss, rfl⟩ := h
      have := C17_once_all vs _ ss hss
      obtain ⟨h1, h2, h3⟩ := this
      simp only [hasOwned]
      refine ⟨by simp [output, h1], ?_, ?_⟩
      · simp only [output, h2]; split <;> rfl
      · intro hh; simp only [output]; rw [h3 hh]
  | .tup vs, k, s, h => by
    cases k <;> simp [intoReturn] at h
    · subst h; simp [OnceSpec, output, hasOwned]
    · subst h; simp [OnceSpec, output, hasOwned]
    · subst h; simp [OnceSpec, output, hasOwned]
    · obtain ⟨ss, hss, rfl⟩ := h
      have := C17_once_zip vs _ ss hss
      obtain ⟨h1, h2, h3⟩ := this
      simp only [hasOwned]
      refine ⟨by simp [output, h1], ?_, ?_⟩
      · simp only [output, h2]; split <;> rfl
      · intro hh; simp only [output]; rw [h3 hh]
theorem C17_once_all : (vs : ValList) → ∀ (k : Kind) (ss : StoredList),
    intoReturnAll true k vs = some ss → OnceSpecList (hasOwnedAll k vs) vs ss
  | .nil, k, ss, h => by simp [intoReturnAll] at h; subst h; simp [OnceSpecList, outputList, hasOwnedAll]
  | .cons v vs, k, ss, h => by
    simp only [intoReturnAll] at h
    cases h1 : intoReturn true k v with
    | none => simp [h1] at h
    | some s =>
      cases h2 : intoReturnAll true k vs with
      | none => simp [h1, h2] at h
      | some ss' =>
        simp [h1, h2] at h; subst h
        simp only [hasOwnedAll]
        exact onceSpecList_cons _ _ v vs s ss' (C17_once v k s h1) (C17_once_all vs k ss' h2)
theorem C17_once_zip : (vs : ValList) → ∀ (ks : KindList) (ss : StoredList),
    intoReturnZip true ks vs = some ss → OnceSpecList (hasOwnedZip ks vs) vs ss
  | .nil, ks, ss, h => by cases ks <;> simp [intoReturnZip] at h; subst h; simp [OnceSpecList, outputList, hasOwnedZip]
  | .cons v vs, ks, ss, h => by
    cases ks with
    | nil => simp [intoReturnZip] at h
    | cons k ks =>
      simp only [intoReturnZip] at h
      cases h1 : intoReturn true k v with
      | none => simp [h1] at h
      | some s =>
        cases h2 : intoReturnZip true ks vs with
        | none => simp [h1, h2] at h
        | some ss' =>
          simp [h1, h2] at h; subst h
          simp only [hasOwnedZip]
          exact onceSpecList_cons _ _ v vs s ss' (C17_once v k s h1) (C17_once_zip vs ks ss' h2)
end

/-- a spent slot never refills: once an output failed, it keeps failing -/
theorem C17_spent_stays_spent : (output Stored.spent).1 = none ∧ (output Stored.spent).2 = Stored.spent := by
  simp [output]

/-- non-vacuity: `Option<Result<&T, E>>` configured as `Some(Err(e))` through the single-use path -/
example :
    let k := Kind.deepOpt .shallowRes
    let v := Val.some (.err (.leaf 7))
    ∃ s, intoReturn true k v = some s ∧ (output s).1 = some v ∧ (output (output s).2).1 = none := by
  refine ⟨_, rfl, ?_, ?_⟩ <;> simp [output]

end Unimock.Output

/-! ## from the return type written in the trait to the observed value

The theorems above start from an output kind. Which kind a method gets is decided by the attribute from
the *syntax* of its return type (`Model/Codegen/OutputKind.determine`, compared token for token with the
real macro on every run). The theorems below close the gap: for every return type over the grammar
(named types, references of every lifetime class, `Option`/`Result`/`Vec`/`Poll`, other generic paths,
tuples, nested to any depth), if the assigned kind is one the run-time implements then it accepts every
value of that type, and the caller observes exactly the configured value. -/
namespace Unimock.Codegen.OutKind
open Unimock.Output

/-- **C17, the kind assigned to a return type fits the type**: every value of the type can be configured. -/
theorem C17_assigned_kind_fits (ty : Ty) (k : Kind) (h : toKind (determine ty).1 (determine ty).2 = some k)
    (once : Bool) (v : Val) (hv : hasType v ty = true) : (intoReturn once k v).isSome = true := by
  cases ty with
  | ref lt m e =>
    simp only [determine] at h
    cases lt <;> cases m <;> simp [refOwnership, toKind] at h <;> subst h <;> simp [intoReturn]
  | named n =>
    simp only [determine] at h
    split at h
    · exact mgk_fits (.named n) k h once v hv
    · simp only [toKind, Option.some.injEq] at h; subst h; simp [intoReturn]
  | app c args =>
    simp only [determine] at h
    split at h
    · exact mgk_fits (.app c args) k h once v hv
    · simp only [toKind, Option.some.injEq] at h; subst h; simp [intoReturn]
  | tuple ts =>
    simp only [determine] at h
    split at h
    · simp only [toKind, Option.map_eq_some_iff] at h
      obtain ⟨ks, hks, rfl⟩ := h
      cases v <;> simp [hasType] at hv
      rename_i vs
      have := wrapElems_fits ts ks hks once vs hv
      simp only [intoReturn]
      cases hx : intoReturnZip once ks vs with
      | none => simp [hx] at this
      | some ss => simp
    · simp only [toKind, Option.some.injEq] at h; subst h; simp [intoReturn]

/-- **C17 end to end, repeatable path**: return type ⟶ assigned kind ⟶ stored value ⟶ every call observes
    the configured value, shape for shape, and the store is unchanged. -/
theorem C17_return_type_roundtrip (ty : Ty) (k : Kind) (h : toKind (determine ty).1 (determine ty).2 = some k)
    (v : Val) (hv : hasType v ty = true) : ∃ s, intoReturn false k v = some s ∧ output s = (some v, s) := by
  have := C17_assigned_kind_fits ty k h false v hv
  cases hs : intoReturn false k v with
  | none => simp [hs] at this
  | some s => exact ⟨s, rfl, C17_roundtrip v k s hs⟩

/-- **C17 end to end, single-use path**: the first call observes the configured value; the second fails
    exactly when the value has an owned leaf on its populated path. -/
theorem C17_return_type_once (ty : Ty) (k : Kind) (h : toKind (determine ty).1 (determine ty).2 = some k)
    (v : Val) (hv : hasType v ty = true) : ∃ s, intoReturn true k v = some s ∧ OnceSpec (hasOwned k v) v s := by
  have := C17_assigned_kind_fits ty k h true v hv
  cases hs : intoReturn true k v with
  | none => simp [hs] at this
  | some s => exact ⟨s, rfl, C17_once v k s hs⟩

/-- non-vacuity: `Vec<Result<&T, E>>` gets `Deep<Vec<Shallow<Result<&'static T, E>>>>`, which the run-time implements -/
example : toKind (determine (.app .vec (.cons (.app .result (.cons (.ref .elided false (.named "T")) (.cons (.named "E") .nil))) .nil))).1
    (determine (.app .vec (.cons (.app .result (.cons (.ref .elided false (.named "T")) (.cons (.named "E") .nil))) .nil))).2
    = some (.deepVec .shallowRes) := by rfl

/-- and a combination the macro accepts but the run-time has no implementation for (rejected by rustc):
    `Result<Option<&T>, E>` -/
example : toKind (determine (.app .result (.cons (.app .option (.cons (.ref .elided false (.named "T")) .nil)) (.cons (.named "E") .nil)))).1
    (determine (.app .result (.cons (.app .option (.cons (.ref .elided false (.named "T")) .nil)) (.cons (.named "E") .nil)))).2
    = none := by rfl

end Unimock.Codegen.OutKind
