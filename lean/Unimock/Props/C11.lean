import Unimock.Generated.Control
import Unimock.Lemmas.Gates
import Unimock.Model.Lifecycle
import Unimock.Generated.LockSites
import Unimock.Props.C08
/-!
# C11 — the mock never turns one panic into a process abort (std builds)

Statement (properties.jsonl): with the std feature, if a thread is already unwinding — from user code,
an answer function, a matcher, a real or default implementation, or a mock-induced panic — dropping
any Unimock on that thread (original or clone, with unmet expectations, live clones or a foreign
creator thread) does not panic again, so the process reports the original panic instead of aborting.
After a caught user panic the mock remains usable and verification reflects the calls actually matched.
-/
namespace Unimock
variable {α ρ : Type}

/-- **C11, teardown on an unwinding thread never panics** — for every world, every instance
    (original or clone), every thread, whatever the expectations, the error log, the number of live
    clones and the creator thread are. -/
theorem C11_teardown_while_unwinding (w : World α ρ) (x : Inst) (t : Nat) :
    teardownVerdict w x t true = .ok := by
  unfold teardownVerdict
  cases x.original <;> simp

/-- **C11, `Drop` on an unwinding thread never panics.** -/
theorem C11_drop_while_unwinding (w : World α ρ) (i t : Nat) : (dropInst w i t true).2 = .ok := by
  unfold dropInst
  cases w.inst? i with
  | none => rfl
  | some x =>
    simp only
    split
    · rfl
    · split
      · simp only [teardownInst]; exact C11_teardown_while_unwinding _ _ _
      · rfl

/-- dropping a whole scope (any number of instances, any order) while unwinding never panics -/
theorem C11_scope_unwinds (w : World α ρ) (t : Nat) (is : List Nat) :
    ∀ r ∈ (dropAllUnwinding w t is).2, r = .ok := by
  induction is generalizing w with
  | nil => simp [dropAllUnwinding]
  | cons i is ih =>
    simp only [dropAllUnwinding, List.mem_cons]
    intro r hr
    rcases hr with h | h
    · rw [h]; exact C11_drop_while_unwinding w i t
    · exact ih _ r h

/-- **C11, a call that panics inside a scope owning mocks unwinds cleanly**: whatever the call does
    (returns, mock-induced panic, user panic at any depth), every drop performed during the unwinding
    is `ok` — no second panic, hence no abort. -/
theorem C11_unwind_event (env : Env α ρ) (w : World α ρ) (i t : Nat) (m : MethodInfo) (a : α) (also : List Nat)
    (log : List (LogEntry α)) (out : CallOutcome ρ) (drops : List Teardown)
    (h : (step env w (.unwindCall i t m a also)).2 = .unwound log out drops) :
    ∀ r ∈ drops, r = .ok := by
  simp only [step] at h
  cases h1 : w.inst? i with
  | none => simp [h1] at h
  | some x =>
    simp only [h1] at h
    by_cases ha : x.alive = true
    · simp only [ha, Bool.not_true, Bool.false_eq_true, ↓reduceIte] at h
      cases h2 : w.mocks[x.sh]? with
      | none => simp [h2] at h
      | some ms =>
        simp only [h2] at h
        injection h with _ _ hd
        rw [← hd]
        exact C11_scope_unwinds _ _ _
    · simp [ha] at h

/-- **C11, by-value provided method that panics**: the moved-in original is dropped while unwinding
    and that drop is `ok`. -/
theorem C11_consume_panics_cleanly (env : Env α ρ) (w : World α ρ) (i t : Nat) (m : MethodInfo) (a : α)
    (log : List (LogEntry α)) (out : CallOutcome ρ) (d : Teardown)
    (h : (step env w (.consume i t m a)).2 = .consumed log out d) (hp : ∀ v, out ≠ .ret v) :
    d = .ok := by
  simp only [step] at h
  cases h1 : w.inst? i with
  | none => simp [h1] at h
  | some x =>
    simp only [h1] at h
    by_cases ha : x.alive = true
    · simp only [ha, Bool.not_true, Bool.false_eq_true, ↓reduceIte] at h
      cases h2 : w.mocks[x.sh]? with
      | none => simp [h2] at h
      | some ms =>
        simp only [h2] at h
        injection h with _ ho hd
        rw [← hd]
        cases hout : (callMethod env fuelDefault 0 ms.shared m a).out with
        | ret v => rw [hout] at ho; exact absurd ho.symm (hp v)
        | mockPanic e => exact C11_drop_while_unwinding _ _ _
        | userPanic => exact C11_drop_while_unwinding _ _ _
        | outOfFuel => exact C11_drop_while_unwinding _ _ _
    · simp [ha] at h

/-- **C11, a matcher that panics counts nothing**: the state is exactly as before the call, so the
    mock remains usable and verification reflects the calls actually matched. -/
theorem C11_matcher_panic_leaves_state (s : Shared α ρ) (m : MethodInfo) (a : α) (fm : FnMocker α ρ)
    (hf : s.find m.id = some fm) (hm : fm.mode = .anyOrder) (pi : Nat)
    (hs : scan fm.pats a 0 = some (pi, .userPanic)) :
    evalCall s m a = (s, .userPanic) := by
  unfold evalCall; simp only [hf, hm, hs]

/-- user-code panics deeper in the call (answer function, real implementation, default body) leave
    the error log untouched (C08) — verification judges the counts -/
theorem C11_user_panic_log_untouched (env : Env α ρ) (fuel lvl : Nat) (s : Shared α ρ) (m : MethodInfo) (a : α)
    (h : (callMethod env fuel lvl s m a).out = .userPanic) :
    (callMethod env fuel lvl s m a).shared.reasons = s.reasons :=
  C08_user_panic_not_recorded env fuel lvl s m a h

/-- **C11, no user code runs while a lock is held**: every closure passed to `MutexIsh::locked` in
    the crate (table regenerated from the source on every run) is one of the five known closed
    bodies (take / clone of the error log / set flag / push / read flag; classes 0-4, up to the name of the closure
    parameter) or — class 5 — another body that only reads, assigns, takes or pushes through its one parameter and calls
    nothing else (in particular no `clone`, which could be user code). -/
theorem C11_lock_bodies_closed : (Generated.lockSites.all fun c => decide (c < 6)) = true := by decide


/-! ### read off the source's own statement order (`Generated/Control.lean`) -/

/-- on an unwinding thread the statement list of `teardown::teardown` ends in `Ok(())` for every observation: original or
    clone, live clones, foreign thread, recorded errors, unmet expectations — it never reaches a `panic!` or `Err` -/
theorem C11_source_teardown_silent_when_unwinding (o : Gates.Obs) (h : o.panicking = true) :
    (Gates.run Generated.teardownSteps o {}).1 = .ok := by
  obtain ⟨a, b, c, d, e, f, g, k⟩ := o
  simp only at h; subst h
  cases a <;> cases c <;> cases d <;> cases e <;> cases f <;> cases g <;> cases k <;> rfl

/-- and `impl Drop` reaches `teardown` at most once per instance: never when already torn down -/
theorem C11_source_drop_after_teardown (f : Gates.IFlags) (h : f.tornDown = true) :
    Gates.runD Generated.dropSteps f = .nothing := by
  obtain ⟨a, b, c⟩ := f
  simp only at h; subst h
  cases a <;> cases c <;> rfl

/-- every statement list sets `torn_down` before anything that can fail -/
theorem C11_source_marks_torn_down (o : Gates.Obs) :
    (Gates.run Generated.teardownSteps o {}).snd.tornDown = true := by
  obtain ⟨a, b, c, d, e, f, g, k⟩ := o
  cases a <;> cases b <;> cases c <;> cases d <;> cases e <;> cases f <;> cases g <;> cases k <;> rfl

end Unimock
