import Unimock.Driver.Universe
import Unimock.Model.Interleave
import Unimock.Model.ValueChain
import Unimock.Model.Codegen.Method
import Unimock.Model.Output
import Unimock.Model.Codegen.Matching
import Unimock.Model.Render
import Unimock.Model.Typestate
import Unimock.Model.Codegen.OutputKind
import Unimock.Model.LeafRace
/-!
# Line protocol: parse scenarios, run them on the model, print the canonical trace

See `/verif/PROTOCOL.md`. Every output line is produced from model values only.
-/
namespace Unimock.Driver
open Unimock

abbrev A := Nat
abbrev R := Int

/-! ## small parsing helpers -/

def parseNatList (s : String) : List Nat :=
  ((s.splitOn ",").filter (· ≠ "")).map fun x => x.toNat?.getD 0

def kv (toks : List String) (key : String) : Option String :=
  toks.findSome? fun t =>
    if t.startsWith (key ++ "=") then some ((t.drop (key.length + 1)).toString) else none

def kvNat (toks : List String) (key : String) (dflt : Nat := 0) : Nat :=
  match kv toks key with
  | some v => v.toNat?.getD dflt
  | none => dflt

def words (line : String) : List String :=
  (line.trimAscii.toString.splitOn " ").filter (· ≠ "")

def maskMatcher (mask pmask : Nat) : Matcher A := fun a =>
  if (pmask >>> a) % 2 == 1 then none else some ((mask >>> a) % 2 == 1)

def parseInt (s : String) : Int :=
  if s.startsWith "-" then - ((s.drop 1).toString.toNat?.getD 0 : Nat) else (s.toNat?.getD 0 : Nat)

def parseQuant (q : String) : Quant :=
  if q == "once" then .once
  else if q == "-" then .unquantified
  else if q.startsWith "al" then .atLeastTimes ((q.drop 2).toString.toNat?.getD 0)
  else if q.startsWith "n" then .nTimes ((q.drop 1).toString.toNat?.getD 0)
  else .unquantified

def parseResp (r : String) : Resp R :=
  if r.startsWith "ret" then .ret (parseInt (r.drop 3).toString) false
  else if r == "def" then .ret 0 false
  else if r.startsWith "ans" then .answer ((r.drop 3).toString.toNat?.getD 0)
  else if r == "panE" then .panic ""                 -- `.panics("")`: the empty message
  else if r.startsWith "pan" then .panic ("boom" ++ (r.drop 3).toString)
  else if r == "unm" then .unmock
  else .applyDefaultImpl

/-- `chain=ret5/once,ans3/n2,...`; `qrvFirst`: the first segment starts from `DefineResponse`
    (some_call / next_call), so a `ret` there goes through `QuantifyReturnValue` -/
def parseChain (s : String) (qrvFirst : Bool) : List (Segment R) :=
  let segs := (s.splitOn ",").filter (· ≠ "")
  segs.zipIdx.map fun (seg, i) =>
    match seg.splitOn "/" with
    | [r, q] =>
      let resp := parseResp r
      let isRet := r.startsWith "ret"
      { resp := resp, quant := parseQuant q, viaQRV := qrvFirst && i == 0 && isRet }
    | _ => { resp := .applyDefaultImpl, quant := .unquantified }

def parsePatBuilder (toks : List String) (mode : Mode) (qrvFirst topLevel : Bool) : Builder A R :=
  let matcher : Option (Matcher A) :=
    match kv toks "mask" with
    | some "none" => none
    | some v => some (maskMatcher (v.toNat?.getD 0) (kvNat toks "pmask"))
    | none => none
  let d := kvNat toks "dbg"
  let dbg : Option PatDebug := if d == 0 then none else some ⟨s!"(p{d})", "scn.rs", d⟩
  let b : Builder A R := { mode := mode, matcher := matcher, dbg := dbg }
  buildChain b topLevel (parseChain ((kv toks "chain").getD "") qrvFirst)

/-- parse one clause tree from the front of `lines`; returns the rest -/
partial def parseTree (lines : List (List String)) : Option (ClauseTree A R × List (List String)) :=
  match lines with
  | [] => none
  | toks :: rest =>
    match toks.head? with
    | some "unit" => some (.unit, rest)
    | some "term" =>
      let kind := (kv toks "kind").getD "each"
      let mode := if kind == "next" then Mode.inOrder else Mode.anyOrder
      let b := parsePatBuilder toks mode (kind != "each") true
      some (.term ⟨methodInfo (kvNat toks "m"), b⟩, rest)
    | some "stub" =>
      let n := kvNat toks "n"
      let pats := (rest.take n).map fun t => parsePatBuilder t .anyOrder false false
      some (.stub (methodInfo (kvNat toks "m")) pats, rest.drop n)
    | some "tuple" =>
      let n := kvNat toks "n"
      let rec go (k : Nat) (ls : List (List String)) (acc : List (ClauseTree A R)) :
          Option (List (ClauseTree A R) × List (List String)) :=
        match k with
        | 0 => some (acc.reverse, ls)
        | k+1 => match parseTree ls with
          | none => none
          | some (c, ls) => go k ls (c :: acc)
      match go n rest [] with
      | none => none
      | some (cs, ls) => some (.tuple cs, ls)
    | _ => none

/-! ## printing -/

def showCall (m : MethodInfo) : String := s!"{m.trait}::{m.name}"

def showPatRef {α ρ} (s : Shared α ρ) (m : MethodInfo) (pi : Nat) : String :=
  match s.find m.id with
  | none => s!"#{pi}"
  | some fm =>
    match fm.pats[pi]? with
    | some p => match p.dbg with
      | some d => s!"@{d.line}"
      | none => s!"#{pi}"
    | none => s!"#{pi}"

def showErr {α ρ} (s : Shared α ρ) : MockError → String
  | .noMockImplementation m => s!"NoMockImplementation {showCall m}"
  | .noMatcherFunction m p => s!"NoMatcherFunction {showCall m} pat={showPatRef s m p}"
  | .noMatchingCallPatterns m => s!"NoMatchingCallPatterns {showCall m}"
  | .noOutputAvailable m p => s!"NoOutputAvailableForCallPattern {showCall m} pat={showPatRef s m p}"
  | .callOrderNotMatched m o (some (em, ep)) =>
    s!"CallOrderNotMatchedForMockFn {showCall m} order={o+1} expected={showCall em}/{showPatRef s em ep}"
  | .callOrderNotMatched m o none => s!"CallOrderNotMatchedForMockFn {showCall m} order={o+1} expected=none"
  | .inputsNotMatchedInCallOrder m o p =>
    s!"InputsNotMatchedInCallOrder {showCall m} order={o+1} pat={showPatRef s m p}"
  | .cannotReturnValueMoreThanOnce m p => s!"CannotReturnValueMoreThanOnce {showCall m} pat={showPatRef s m p}"
  | .cannotUnmock m => s!"CannotUnmock {showCall m}"
  | .noDefaultImpl m => s!"NoDefaultImpl {showCall m}"
  | .notAnswered m => s!"NotAnswered {showCall m}"
  | .explicitPanic m p msg => s!"ExplicitPanic {showCall m} pat={showPatRef s m p} msg={msg}"
  | .failedVerification m p al b act =>
    s!"FailedVerification {showCall m} pat={showPatRef s m p} {if al then "atleast" else "exactly"}={b} actual={act}"
  | .mockNeverCalled m => s!"MockNeverCalled {showCall m}"

def showLog (l : List (LogEntry A)) : String :=
  ",".intercalate (l.map fun
    | .answer f a => s!"ans:{f}:{a}"
    | .real m a => s!"real:{m}:{a}"
    | .dflt m a => s!"dflt:{m}:{a}")

def showResp : Resp R → String
  | .ret _ _ => "return" | .answer _ => "answer" | .applyDefaultImpl => "default"
  | .unmock => "unmock" | .panic _ => "panic"

def showEx : Exactness → Nat | .exact => 0 | .atLeast => 1 | .atLeastPlusOne => 2

def showPattern (p : Pattern A R) : String :=
  let starts := ".".intercalate (p.responders.map (toString ·.start))
  let kinds := ".".intercalate (p.responders.map (showResp ·.resp))
  s!"c{p.count}/r{p.lo}-{p.hi}/m{p.min}/e{showEx p.ex}/s{starts}/k{kinds}/f{if p.matcher.isSome then 1 else 0}{if p.dbg.isSome then 1 else 0}"

def showMocker (fm : FnMocker A R) : String :=
  s!"{showCall fm.info}:{if fm.mode = .inOrder then "ord" else "any"}:d{if fm.info.hasDefaultImpl then 1 else 0}:[" ++
    ";".intercalate (fm.pats.map showPattern) ++ "]"

/-- insertion sort of strings (method table order is not observable: real one is TypeId order) -/
def sortStrings (l : List String) : List String :=
  l.foldl (fun acc x =>
    let (lo, hi) := acc.span (· < x)
    lo ++ [x] ++ hi) []

def showState (w : World A R) : List String :=
  w.mocks.zipIdx.map fun (m, k) =>
    let s := m.shared
    if w.strong k == 0 then s!"state sh={k} dead" else
    s!"state sh={k} fb={if s.fallback = .unmock then "unmock" else "error"} next={s.nextOrdered} strong={w.strong k} reasons=[" ++
      " | ".intercalate (s.reasons.map (showErr s)) ++ "] fns=" ++
      " ".intercalate (sortStrings (s.mockers.map showMocker))

def showAsmErr : AsmError → String
  | .outputError => "output-error"
  | .emptyStub => "empty-stub"
  | .modeConflict m o n =>
    s!"mode-conflict {showCall m} {if o = .inOrder then "InOrder" else "InAnyOrder"} {if n = .inOrder then "InOrder" else "InAnyOrder"}"

def showTeardown {α ρ} (s? : Option (Shared α ρ)) : Teardown → String
  | .ok => "ok"
  | .errs es =>
    let render := fun e => match s? with
      | some s => showErr s e
      | none => "?"
    s!"errs {es.length} [" ++ " | ".intercalate (es.map render) ++ "]"
  | .panicClones => "clones-alive"
  | .panicThread => "wrong-thread"

def sharedOfInst (w : World A R) (i : Nat) : Option (Shared A R) :=
  match w.inst? i with
  | none => none
  | some x => (w.mocks[x.sh]?).map (·.shared)

def showOutcome (w : World A R) (inst : Nat) : Outcome A R → String
  | .call log out =>
    let o := match out with
      | .ret v => s!"ret {v}"
      | .mockPanic e => match sharedOfInst w inst with
        | some s => s!"mock-panic {showErr s e}"
        | none => "mock-panic ?"
      | .userPanic => "user-panic"
      | .outOfFuel => "out-of-fuel"
    s!"call {o} log=[{showLog log}]"
  | .built => "built"
  | .buildPanic e => s!"build-panic {showAsmErr e}"
  | .ok => "ok"
  | .teardown t => s!"teardown {showTeardown (sharedOfInst w inst) t}"
  | .panicOnClone => "panic-on-clone"
  | .exit f es => match sharedOfInst w inst with
    | some s => s!"exit {if f then 1 else 0} [" ++ " | ".intercalate (es.map (showErr s)) ++ "]"
    | none => s!"exit {if f then 1 else 0}"
  | .badEvent => "bad-event"
  | .unwound log out _ =>
    let o := match out with
      | .ret _ => "user"
      | .mockPanic e => match sharedOfInst w inst with
        | some s => s!"mock-panic {showErr s e}"
        | none => "mock-panic ?"
      | .userPanic => "user"
      | .outOfFuel => "out-of-fuel"
    s!"unwound {o} log=[{showLog log}]"
  | .consumed log out d =>
    let o := match out with
      | .ret v => s!"ret {v}"
      | .mockPanic e => match sharedOfInst w inst with
        | some s => s!"mock-panic {showErr s e}"
        | none => "mock-panic ?"
      | .userPanic => "user-panic"
      | .outOfFuel => "out-of-fuel"
    -- a verification failure at the final drop of a normally returning call replaces the return value
    match out, d with
    | .ret _, .ok => s!"call {o} log=[{showLog log}]"
    | .ret _, t => s!"call teardown {showTeardown (sharedOfInst w inst) t} log=[{showLog log}]"
    | _, _ => s!"call {o} log=[{showLog log}]"

/-! ## scenario runner -/

structure RunState where
  w : World A R := {}
  out : Array String := #[]

/-- parse the event at the head of `lines` (a `build` consumes its clause tree) -/
def parseEvent (lines : List (List String)) : Option (Event A R × Nat × List (List String)) :=
  match lines with
  | [] => none
  | toks :: rest =>
    let i := kvNat toks "i"
    let t := kvNat toks "t"
    match toks.head? with
    | some "build" =>
      let fb := if (kv toks "mode").getD "strict" == "partial" then Fallback.unmock else Fallback.error
      match parseTree rest with
      | none => none
      | some (c, rest) => some (.build i t fb c, i, rest)
    | some "call" => some (.call i t (methodInfo (kvNat toks "m")) (kvNat toks "a"), i, rest)
    | some "clone" => some (.clone i (kvNat toks "j"), i, rest)
    | some "drop" => some (.drop i t (kvNat toks "unwind" == 1), i, rest)
    | some "verify" => some (.verify i t, i, rest)
    | some "noverify" => some (.noVerify i t, i, rest)
    | some "report" => some (.report i t, i, rest)
    | some "unwindcall" =>
      some (.unwindCall i t (methodInfo (kvNat toks "m")) (kvNat toks "a") (parseNatList ((kv toks "also").getD "")), i, rest)
    | some "consume" => some (.consume i t (methodInfo 9) (kvNat toks "a"), i, rest)
    | _ => none

partial def runScenario (lines : List (List String)) (st : RunState) : RunState :=
  match lines with
  | [] => st
  | toks :: _ =>
    if toks.head? == some "end" then st else
    match parseEvent lines with
    | none => { st with out := st.out.push "parse-error" }
    | some (ev, inst, rest) =>
      let (w', o) := step env st.w ev
      -- errors are rendered against the post-state (patterns never change identity)
      let line := showOutcome w' inst o
      let st := { w := w', out := (st.out.push line).append (showState w').toArray }
      runScenario rest st

end Unimock.Driver

namespace Unimock.Driver
open Unimock

/-! ## concurrent scenarios (`par`): run given schedules on the interleaving model -/

def errKind : MockError → String
  | .noMockImplementation _ => "NoMockImplementation"
  | .noMatcherFunction _ _ => "NoMatcherFunction"
  | .noMatchingCallPatterns _ => "NoMatchingCallPatterns"
  | .noOutputAvailable _ _ => "NoOutputAvailableForCallPattern"
  | .callOrderNotMatched _ _ _ => "CallOrderNotMatchedForMockFn"
  | .inputsNotMatchedInCallOrder _ _ _ => "InputsNotMatchedInCallOrder"
  | .cannotReturnValueMoreThanOnce _ _ => "CannotReturnValueMoreThanOnce"
  | .cannotUnmock _ => "CannotUnmock"
  | .noDefaultImpl _ => "NoDefaultImpl"
  | .notAnswered _ => "NotAnswered"
  | .explicitPanic _ _ _ => "ExplicitPanic"
  | .failedVerification _ _ _ _ _ => "FailedVerification"
  | .mockNeverCalled _ => "MockNeverCalled"

def showThreadOut : ThreadOut R → String
  | .ret v => s!"ret:{v}"
  | .cont k => s!"cont:{k}"
  | .err e => s!"err:{errKind e}"
  | .userPanic => "user"

def showCounts (s : Shared A R) : String :=
  " ".intercalate (sortStrings (s.mockers.map fun fm =>
    s!"{showCall fm.info}[" ++ ",".intercalate (fm.pats.map (toString ·.count)) ++ "]"))

def showVerdict (s : Shared A R) : String :=
  if !s.reasons.isEmpty then " | ".intercalate (s.reasons.map (showErr s))
  else
    let es := verifyAll s
    if es.isEmpty then "ok" else " | ".intercalate (es.map (showErr s))

/-- the unfinished threads in ascending order, as the real scheduler enumerates them -/
def picksOf (p : ParState A R) : List Nat → List Nat
  | [] => []
  | c :: cs =>
    let enabled := (p.threads.zipIdx.filter fun x => !x.1.isFinished).map (·.2)
    match enabled[min c (enabled.length - 1)]? with
    | none => []
    | some tid => tid :: picksOf (parStep p c) cs

def runParScenario (lines : List (List String)) : Array String := Id.run do
  -- build block, then `par`, `tcall`* , `schedule`*
  let parPos := lines.findIdx (fun t => t.head? == some "par")
  let buildLines := lines.take parPos
  let rest := lines.drop parPos
  let mut out : Array String := #[]
  match parseEvent buildLines with
  | some (.build _ _ fb c, _, _) =>
    match newMock fb c with
    | .error e => out := out.push s!"build-panic {showAsmErr e}"
    | .ok s0 =>
      let n := kvNat (rest.headD []) "threads"
      let tcalls := rest.filter (fun t => t.head? == some "tcall")
      let threads : List (ThreadSt A R) := (List.range n).map fun k =>
        { todo := (tcalls.filter (fun t => kvNat t "k" == k)).map fun t => (methodInfo (kvNat t "m"), kvNat t "a") }
      for sl in rest.filter (fun t => t.head? == some "schedule") do
        let choices := parseNatList (sl.getD 1 "")
        let p0 : ParState A R := { shared := s0, threads := threads }
        let p := parRun p0 choices
        let picks := picksOf p0 choices
        let tags := "|".intercalate (p.threads.map fun t => ",".intercalate t.tags)
        let outs := "|".intercalate (p.threads.map fun t => ",".intercalate (t.outs.map showThreadOut))
        let allDone := p.threads.all (·.isFinished)
        let kinds := ",".intercalate (sortStrings (p.shared.reasons.map errKind))
        out := out.push (s!"sched {",".intercalate (choices.map toString)} picks={",".intercalate (picks.map toString)} tags={tags} outs={outs} " ++
          s!"next={p.shared.nextOrdered} counts={showCounts p.shared} reasons={kinds} verdict={showVerdict p.shared}" ++
          (if allDone then "" else " UNFINISHED"))
  | _ => out := out.push "parse-error"
  return out

end Unimock.Driver

namespace Unimock.Driver
open Unimock

/-! ## value-chain scenarios (`via` line): `ref`, `mut`, implicit final drop -/

def showSerials (l : List Nat) : String :=
  ",".intercalate ((l.toArray.qsort (· < ·)).toList.map toString)

def runChainScenario (lines : List (List String)) : Array String := Id.run do
  let mut chain : Chain := []
  let mut refs : List Nat := []
  let mut out : Array String := #[]
  for t in lines do
    match t.head? with
    | some "ref" =>
      let (c, i) := chain.push ⟨kvNat t "s", kvNat t "ty"⟩
      chain := c
      refs := refs ++ [i]
      let reads := refs.map fun r => match chain.read r with | some v => toString v.serial | none => "?"
      out := out.push s!"ref reads={",".intercalate reads} distinct={decide (refs.eraseDups.length = refs.length)} drops="
    | some "check" =>
      let reads := refs.map fun r => match chain.read r with | some v => toString v.serial | none => "?"
      out := out.push s!"check reads={",".intercalate reads} distinct={decide (refs.eraseDups.length = refs.length)} drops="
    | some "mut" =>
      let (c, i, dropped) := chain.pushMut ⟨kvNat t "s", kvNat t "ty"⟩
      chain := c
      refs := []
      let v := match chain.read i with | some v => toString v.serial | none => "?"
      out := out.push s!"mut reads={v} distinct=true drops={showSerials (dropped.map (·.serial))}"
    | _ => pure ()
  out := out.push s!"drop drops={showSerials (chain.dropAll.map (·.serial))}"
  return out

end Unimock.Driver

namespace Unimock.Driver
open Unimock.Codegen

/-! ## macro shapes (`shape` lines): print the code-generation model's facts -/

def parseRecv : String → Recv
  | "ref" => .ref | "mut" => .mutRef | "own" => .owned | "rc" => .rc | "arc" => .arc
  | "tref" => .typedRef | "tmut" => .typedMut | _ => .pinMut

def parsePClass : String → PClass
  | "own" => .owned | "ref" => .ref | "refref" => .refRef | "mut" => .mutRef | "imp" => .mutImpossible | "mutdyn" => .mutDyn | "mutst" => .mutStatic | "mutgu" => .mutGenU | "gt" => .genT | "gu" => .genU
  | c => if c.startsWith "impl" then .implInto ((c.drop 4).toString.toNat?.getD 0) else .slice

def parseParams (s : String) : List Param :=
  ((s.splitOn ",").filter (· ≠ "")).map fun x =>
    match x.splitOn ":" with
    | [n, c] => ⟨n, parsePClass c⟩
    | _ => ⟨x, .owned⟩

def parseUnmock (s : String) : Unmock :=
  match s.splitOn "@" with
  | ["path", p] => .path p
  | ["listed", p, args] => .listed p ((args.splitOn ";").filter (· ≠ ""))
  | ["listed", p] => .listed p []
  | _ => .none

def parseApi (s : String) (method : String) (flatIdent : String) : Api :=
  match s.splitOn ":" with
  | ["mod", m] => .modul m
  | ["flat"] => let _ := method; .flat flatIdent
  | _ => .hidden

/-- `shape <id> trait=T api=.. | m name=.. recv=.. async=.. rpit=.. default=.. unmock=.. params=.. flat=.. | m ...` -/
def runShape (line : String) : Array String := Id.run do
  let parts := (line.splitOn "|").map words
  let hd := parts.headD []
  let tr := (kv hd "trait").getD "T"
  let api := (kv hd "api").getD "hidden"
  let ms : List MethodShape := (parts.drop 1).map fun t =>
    let name := (kv t "name").getD "m"
    { traitName := tr, name := name, recv := parseRecv ((kv t "recv").getD "ref"),
      params := parseParams ((kv t "params").getD ""), isAsync := kvNat t "async" == 1, rpit := kvNat t "rpit" == 1,
      hasDefault := kvNat t "default" == 1, unmock := parseUnmock ((kv t "unmock").getD "none"),
      api := parseApi api name ((kv t "flat").getD name),
      traitGen := kvNat hd "tgen" == 1, methodGen := kvNat t "mgen" == 1 }
  let mut out : Array String := #[]
  for m in ms do
    for l in renderMockFn m do out := out.push l
  for m in ms do
    for l in renderMethod m do out := out.push l
  if ms.any (·.hasDefault) then
    for m in ms.filter (!·.hasDefault) do
      for l in renderDelegator m do out := out.push l
  return out

end Unimock.Driver

namespace Unimock.Driver
open Unimock.Output

/-! ## output-kind cases (`outcase` lines): run the Output model -/

mutual
partial def parseVal (cs : List Char) : Option (Output.Val × List Char) :=
  match cs with
  | 'L' :: rest =>
    let ds := rest.takeWhile Char.isDigit
    some (.leaf ((String.ofList ds).toNat?.getD 0), rest.dropWhile Char.isDigit)
  | 'N' :: rest => some (.none, rest)
  | 'P' :: rest => some (.pending, rest)
  | 'S' :: '(' :: rest => (parseVal rest).bind fun (v, r) => match r with | ')' :: r => some (.some v, r) | _ => none
  | 'O' :: '(' :: rest => (parseVal rest).bind fun (v, r) => match r with | ')' :: r => some (.ok v, r) | _ => none
  | 'E' :: '(' :: rest => (parseVal rest).bind fun (v, r) => match r with | ')' :: r => some (.err v, r) | _ => none
  | 'R' :: '(' :: rest => (parseVal rest).bind fun (v, r) => match r with | ')' :: r => some (.ready v, r) | _ => none
  | 'V' :: '[' :: rest => (parseValList rest).map fun (vs, r) => (.vec vs, r)
  | 'T' :: '[' :: rest => (parseValList rest).map fun (vs, r) => (.tup vs, r)
  | _ => none
partial def parseValList (cs : List Char) : Option (Output.ValList × List Char) :=
  match cs with
  | ']' :: rest => some (.nil, rest)
  | ',' :: rest => parseValList rest
  | _ => (parseVal cs).bind fun (v, r) => (parseValList r).map fun (vs, r2) => (.cons v vs, r2)
end

mutual
partial def parseKind (cs : List Char) : Option (Output.Kind × List Char) :=
  let pre (p : String) : Option (List Char) := if (String.ofList cs).startsWith p then some (cs.drop p.length) else none
  if let some r := pre "own" then some (.owning, r)
  else if let some r := pre "lend" then some (.lending, r)
  else if let some r := pre "sref" then some (.staticRef, r)
  else if let some r := pre "shopt" then some (.shallowOpt, r)
  else if let some r := pre "shres" then some (.shallowRes, r)
  else if let some r := pre "shvec" then some (.shallowVec, r)
  else if let some r := pre "dopt(" then (parseKind r).bind fun (k, r) => match r with | ')' :: r => some (.deepOpt k, r) | _ => none
  else if let some r := pre "dvec(" then (parseKind r).bind fun (k, r) => match r with | ')' :: r => some (.deepVec k, r) | _ => none
  else if let some r := pre "dpoll(" then (parseKind r).bind fun (k, r) => match r with | ')' :: r => some (.deepPoll k, r) | _ => none
  else if let some r := pre "dres(" then
    (parseKind r).bind fun (t, r) => match r with
      | ',' :: r => (parseKind r).bind fun (e, r) => match r with | ')' :: r => some (.deepRes t e, r) | _ => none
      | _ => none
  else if let some r := pre "dtup[" then (parseKindList r).map fun (ks, r) => (.deepTup ks, r)
  else none
partial def parseKindList (cs : List Char) : Option (Output.KindList × List Char) :=
  match cs with
  | ']' :: rest => some (.nil, rest)
  | ',' :: rest => parseKindList rest
  | _ => (parseKind cs).bind fun (k, r) => (parseKindList r).map fun (ks, r2) => (.cons k ks, r2)
end

mutual
partial def showVal : Output.Val → String
  | .leaf n => s!"L{n}"
  | .none => "N"
  | .pending => "P"
  | .some v => s!"S({showVal v})"
  | .ok v => s!"O({showVal v})"
  | .err v => s!"E({showVal v})"
  | .ready v => s!"R({showVal v})"
  | .vec vs => s!"V[{showValList vs}]"
  | .tup vs => s!"T[{showValList vs}]"
partial def showValList : Output.ValList → String
  | .nil => ""
  | .cons v .nil => showVal v
  | .cons v vs => showVal v ++ "," ++ showValList vs
end

/-- `outcase <id> once=<0|1> kind=<k> val=<v> calls=<n>` -/
def runOutCase (toks : List String) : String :=
  let once := kvNat toks "once" == 1
  match parseKind ((kv toks "kind").getD "").toList, parseVal ((kv toks "val").getD "").toList with
  | some (k, _), some (v, _) =>
    match intoReturn once k v with
    | none => "ill-typed"
    | some s =>
      let n := kvNat toks "calls" 3
      let rec go (n : Nat) (s : Output.Stored) (acc : List String) : List String :=
        match n with
        | 0 => acc.reverse
        | n+1 =>
          let r := output s
          go n r.2 ((match r.1 with | some v => showVal v | none => "!CannotReturnValueMoreThanOnce") :: acc)
      " ".intercalate (go n s [])
  | _, _ => "parse-error"

end Unimock.Driver

namespace Unimock.Driver
open Unimock.Matching

/-! ## `matching!` cases (`matchcase` lines): accept bits of the model over the finite domain -/

def takeNat (cs : List Char) : Nat × List Char :=
  let ds := cs.takeWhile Char.isDigit
  ((String.ofList ds).toNat?.getD 0, cs.dropWhile Char.isDigit)

partial def parseNatListC (cs : List Char) (acc : List Nat) : List Nat × List Char :=
  match cs with
  | ']' :: rest => (acc.reverse, rest)
  | ',' :: rest => parseNatListC rest acc
  | _ => let (n, r) := takeNat cs; if r.length == cs.length then (acc.reverse, cs) else parseNatListC r (n :: acc)

mutual
partial def parseMV (cs : List Char) : Option (Matching.V × List Char) :=
  match cs with
  | 'n' :: rest => let (k, r) := takeNat rest; some (.n k, r)
  | 'N' :: rest => some (.none, rest)
  | 'S' :: '(' :: rest => (parseMV rest).bind fun (v, r) => match r with | ')' :: r => some (.some v, r) | _ => none
  | 's' :: '[' :: rest => let (ns, r) := parseNatListC rest []; some (.str ns, r)
  | 'v' :: '[' :: rest => (parseMVList rest).map fun (vs, r) => (.slice vs, r)
  | _ => none
partial def parseMVList (cs : List Char) : Option (Matching.VList × List Char) :=
  match cs with
  | ']' :: rest => some (.nil, rest)
  | ',' :: rest => parseMVList rest
  | _ => (parseMV cs).bind fun (v, r) => (parseMVList r).map fun (vs, r2) => (.cons v vs, r2)
end

mutual
partial def parseMP (cs : List Char) : Option (Matching.P × List Char) :=
  match cs with
  | 'l' :: rest => let (k, r) := takeNat rest; some (.lit k, r)
  | 'r' :: rest =>
    let (a, r) := takeNat rest
    match r with
    | '-' :: r => let (b, r) := takeNat r; some (.range a b, r)
    | _ => none
  | 'w' :: rest => some (.wild, rest)
  | 'b' :: rest => let (x, r) := takeNat rest; some (.bind x, r)
  | 'a' :: rest =>
    let (x, r) := takeNat rest
    match r with
    | '(' :: r => (parseMP r).bind fun (p, r) => match r with | ')' :: r => some (.bindAt x p, r) | _ => none
    | _ => none
  | 'o' :: '[' :: rest => (parseMPList rest).map fun (ps, r) => (.alt ps, r)
  | 'S' :: '(' :: rest => (parseMP rest).bind fun (p, r) => match r with | ')' :: r => some (.some p, r) | _ => none
  | 'N' :: rest => some (.none, rest)
  | 's' :: '[' :: rest => let (ns, r) := parseNatListC rest []; some (.strLit ns, r)
  | 'e' :: '[' :: rest => (parseMPList rest).map fun (ps, r) => (.sliceExact ps, r)
  | 't' :: '[' :: rest =>
    (parseMPList rest).bind fun (pre, r) => match r with
      | '[' :: r => (parseMPList r).map fun (suf, r) => (.sliceRest pre suf, r)
      | _ => none
  | _ => none
partial def parseMPList (cs : List Char) : Option (Matching.PList × List Char) :=
  match cs with
  | ']' :: rest => some (.nil, rest)
  | ',' :: rest => parseMPList rest
  | _ => (parseMP cs).bind fun (p, r) => (parseMPList r).map fun (ps, r2) => (.cons p ps, r2)
end

partial def parseMG (cs : List Char) : Option (Matching.G × List Char) :=
  match cs with
  | 'T' :: rest => some (.tt, rest)
  | 'q' :: rest => let (x, r) := takeNat rest; match r with | ':' :: r => let (c, r) := takeNat r; some (.eqc x c, r) | _ => none
  | 'l' :: rest => let (x, r) := takeNat rest; match r with | ':' :: r => let (c, r) := takeNat r; some (.ltc x c, r) | _ => none
  | 'A' :: '(' :: rest =>
    (parseMG rest).bind fun (a, r) => match r with
      | ',' :: r => (parseMG r).bind fun (b, r) => match r with | ')' :: r => some (.and a b, r) | _ => none
      | _ => none
  | 'O' :: '(' :: rest =>
    (parseMG rest).bind fun (a, r) => match r with
      | ',' :: r => (parseMG r).bind fun (b, r) => match r with | ')' :: r => some (.or a b, r) | _ => none
      | _ => none
  | _ => none

/-- `P:<p>` | `EQ:<v>` | `NE:<v>` -/
def parseElem (s : String) : Option Matching.Elem :=
  if s.startsWith "P:" then (parseMP (s.drop 2).toString.toList).map fun (p, _) => .pat p
  else if s.startsWith "EQ:" then (parseMV (s.drop 3).toString.toList).map fun (v, _) => .cmp true v
  else if s.startsWith "NE:" then (parseMV (s.drop 3).toString.toList).map fun (v, _) => .cmp false v
  else none

def mkVList : List Matching.V → Matching.VList
  | [] => .nil
  | v :: vs => .cons v (mkVList vs)

def domainOf (c : Char) : List Matching.V :=
  match c with
  | 'n' => [.n 0, .n 1, .n 2, .n 3]
  | 'o' => [.none, .some (.n 0), .some (.n 1), .some (.n 2)]
  | 's' => [.str [], .str [97], .str [97, 98]]
  | _ => [.slice (mkVList []), .slice (mkVList [.n 1]), .slice (mkVList [.n 1, .n 2]), .slice (mkVList [.n 1, .n 2, .n 3])]

def tuplesOf : List Char → List (List Matching.V)
  | [] => [[]]
  | c :: cs => (domainOf c).flatMap fun v => (tuplesOf cs).map fun t => v :: t

/-- `matchcase <id> types=<nn|on|ss|ll|n> guard=<g|-> alts=<elem;elem/elem;elem>` -/
def runMatchCase (toks : List String) : String :=
  let types := ((kv toks "types").getD "").toList
  let guard : Option Matching.G := match kv toks "guard" with
    | some "-" => none
    | some g => (parseMG g.toList).map (·.1)
    | none => none
  let altsS := ((kv toks "alts").getD "").splitOn "/"
  let alts : List (List Matching.Elem) := (altsS.filter (· ≠ "")).map fun a => ((a.splitOn ";").filter (· ≠ "")).filterMap parseElem
  let inp : Matching.Input := ⟨alts, guard⟩
  let ir := Matching.generate inp
  let bits (en : Bool) : String := String.ofList ((tuplesOf types).map fun args => if (Matching.evalIR ir args en).1 then '1' else '0')
  let diag : String := ";".intercalate ((tuplesOf types).map fun args =>
    let r := Matching.evalIR ir args true
    if r.1 then "-" else ",".intercalate (r.2.map toString))
  s!"un={bits false} ord={bits true} spec={String.ofList ((tuplesOf types).map fun args => if Matching.specAccept inp args then '1' else '0')} diag={diag}"

end Unimock.Driver

namespace Unimock.Driver
open Unimock.Render

/-! ## message cases (`msgcase` lines, TAB separated): render with the Render model -/

/-- fields: msgcase, id, kind, trait, method, args (`\x1f`-separated, `\x1e` = no Debug), patkind (debug|index|-),
    src, file, line-or-index, order, extra (message / expected path "T::m" / exact:bound:actual) -/
def runMsgCase (line : String) : String × String :=
  let f := (line.splitOn "\t").toArray
  let get (i : Nat) : String := f.getD i ""
  let p : Path := ⟨get 3, get 4⟩
  let args : List (Option String) :=
    if get 5 == "" then [] else (get 5).splitOn "\x1f" |>.map fun a => if a == "\x1e" then none else some a
  let pat : PatLoc := if get 6 == "debug" then .debug (get 7) (get 8) ((get 9).toNat?.getD 0) else .index ((get 9).toNat?.getD 0)
  let order := (get 10).toNat?.getD 0
  let extra := get 11
  let msg : Msg := match get 2 with
    | "NoMockImplementation" => .noMockImplementation p args
    | "NoMatcherFunction" => .noMatcherFunction p args pat
    | "NoMatchingCallPatterns" => .noMatchingCallPatterns p args
    | "NoOutputAvailableForCallPattern" => .noOutputAvailable p args pat
    | "WrongOrder" =>
      match extra.splitOn "::" with
      | [t, m] => .wrongOrder p args ⟨t, m⟩ pat
      | _ => .wrongOrder p args p pat
    | "OutOfRange" => .outOfRange p args order
    | "InputsNotMatchedInCallOrder" => .inputsNotMatched p args order pat
    | "CannotReturnValueMoreThanOnce" => .cannotReturnTwice p args pat
    | "ExplicitPanic" => .explicitPanic p args pat extra
    | "CannotUnmock" => .cannotUnmock p
    | "NoDefaultImpl" => .noDefaultImpl p
    | "FailedVerification" =>
      match extra.splitOn ":" with
      | [e, b, a] => .failedVerification p pat (e == "exact") (b.toNat?.getD 0) (a.toNat?.getD 0)
      | _ => .failedVerification p pat true 0 0
    | _ => .mockNeverCalled p
  (get 1, render msg)

/-! ## builder type-state cases: `tscase <id> entry=<e> calls=<c1,c2,..>` -/

def parseTsEntry (s : String) : Typestate.Entry :=
  if s == "next" then .nextCall else if s == "some" then .someCall else if s == "each" then .eachCall else .stubCall

def parseTsCall (s : String) : Option Typestate.Call :=
  if s == "retc" then some (.returns true) else if s == "retn" then some (.returns false)
  else if s == "other" then some .other else if s == "once" then some .once
  else if s == "ntimes" then some .nTimes else if s == "atleast" then some .atLeastTimes
  else if s == "then" then some .then_ else none

def runTsCase (toks : List String) : String :=
  let e := parseTsEntry ((kv toks "entry").getD "some")
  let cs := (((kv toks "calls").getD "").splitOn ",").filter (· ≠ "")
  match cs.mapM parseTsCall with
  | none => "bad-case"
  | some calls =>
    match Typestate.firstReject e calls with
    | none => "accept"
    | some k => s!"reject {k}"

/-! ## output-kind cases: `kindcase <id> ty=<t>` with
    t ::= n | r<e|s|l|p|u><i|m>(t) | o(t) | x(t,t) | v(t) | q(t) | g<Name>(t,..) | t(t,..) -/

open Codegen.OutKind in
mutual
partial def parseTy (cs : List Char) : Option (Ty × List Char) :=
  match cs with
  | 'n' :: r => some (.named "Tok", r)
  | 'r' :: l :: m :: '(' :: r =>
    let lt : Lt := match l with | 'e' => .elided | 's' => .static | 'l' => .self_ | 'p' => .param | _ => .undeclared
    (parseTy r).bind fun (t, r) => match r with | ')' :: r => some (.ref lt (m == 'm') t, r) | _ => none
  | 'o' :: '(' :: r => (parseTyList r).map fun (ts, r) => (.app .option ts, r)
  | 'x' :: '(' :: r => (parseTyList r).map fun (ts, r) => (.app .result ts, r)
  | 'v' :: '(' :: r => (parseTyList r).map fun (ts, r) => (.app .vec ts, r)
  | 'q' :: '(' :: r => (parseTyList r).map fun (ts, r) => (.app .poll ts, r)
  | 't' :: '(' :: r => (parseTyList r).map fun (ts, r) => (.tuple ts, r)
  | 'g' :: r =>
    let name := r.takeWhile (· != '(')
    match r.dropWhile (· != '(') with
    | '(' :: r2 => (parseTyList r2).map fun (ts, r3) => (.app (.other (String.ofList name)) ts, r3)
    | _ => none
  | _ => none
partial def parseTyList (cs : List Char) : Option (TyList × List Char) :=
  match cs with
  | ')' :: rest => some (.nil, rest)
  | ',' :: rest => parseTyList rest
  | _ => (parseTy cs).bind fun (t, r) => (parseTyList r).map fun (ts, r2) => (.cons t ts, r2)
end

mutual
partial def showKind : Output.Kind → String
  | .owning => "own" | .lending => "lend" | .staticRef => "sref"
  | .shallowOpt => "shopt" | .shallowRes => "shres" | .shallowVec => "shvec"
  | .deepOpt k => s!"dopt({showKind k})"
  | .deepVec k => s!"dvec({showKind k})"
  | .deepPoll k => s!"dpoll({showKind k})"
  | .deepRes a b => s!"dres({showKind a},{showKind b})"
  | .deepTup ks => s!"dtup[{showKindList ks}]"
partial def showKindList : Output.KindList → String
  | .nil => ""
  | .cons k .nil => showKind k
  | .cons k ks => showKind k ++ "," ++ showKindList ks
end

open Codegen.OutKind in
def runKindCase (toks : List String) : String :=
  match parseTy ((kv toks "ty").getD "").toList with
  | some (t, []) =>
    let r := determine t
    let k := match toKind r.1 r.2 with | some k => showKind k | none => "none"
    s!"{t.render} {renderDetermined r} {k}"
  | _ => "parse-error"

/-! ## leaf race: `leafrace <id> leaves=<n> threads=<k> picks=<t,t,..>`

A pick lets the chosen thread perform its pending instrumented operation and run on to its next one.
A request's operations are: bump the pattern counter, then one lock per owned leaf (`LeafRace.step`), and —
after hitting an empty leaf — one lock to record the error. -/

inductive RacePhase | notStarted | atCount | atLeaf | atPush | finished
  deriving DecidableEq

def runLeafRace (toks : List String) : String := Id.run do
  let n := kvNat toks "leaves"
  let k := kvNat toks "threads"
  let picks := parseNatList ((kv toks "picks").getD "")
  let mut st := LeafRace.init n k
  let mut phases : Array RacePhase := Array.replicate k .notStarted
  let mut tags : Array (List String) := Array.replicate k []
  let mut stray := 0
  for t in picks do
    match phases[t]? with
    | none => stray := stray + 1
    | some ph =>
      match ph with
      | .notStarted => phases := phases.set! t .atCount
      | .atCount =>
        tags := tags.set! t (tags[t]! ++ ["atomic.fetch_add"])
        phases := phases.set! t (if n == 0 then .finished else .atLeaf)
      | .atLeaf =>
        tags := tags.set! t (tags[t]! ++ ["lock"])
        st := LeafRace.step st t
        match st.reqs[t]? with
        | some r =>
          if r.failed then phases := phases.set! t .atPush
          else if n ≤ r.pos then phases := phases.set! t .finished
        | none => pure ()
      | .atPush =>
        tags := tags.set! t (tags[t]! ++ ["lock"])
        phases := phases.set! t .finished
      | .finished => stray := stray + 1
  let outs := (List.range k).map fun t =>
    match st.reqs[t]?, phases[t]? with
    | some r, some .finished => if r.received n then "got" else "err"
    | _, _ => "unfinished"
  let tagS := "|".intercalate (tags.toList.map fun l => "+".intercalate l)
  return s!"tags={tagS} outs={"|".intercalate outs} stray={stray}"

/-! ## racing pushes on one value chain: `racecase <id> threads=<T> per=<P> pre=<K> picks=<t,t,..>`

Thread `t` lends `P` values (serial `100 t + k`, type `k mod 3`) through one shared chain that already holds `K`
values (serials `1000 + s`). A pick lets the chosen thread perform its pending `try_insert` attempt
(`Unimock.raceStep` on its current pusher) and run on to its next attempt. -/

def runRaceCase (toks : List String) : String := Id.run do
  let nT := kvNat toks "threads"
  let per := kvNat toks "per"
  let pre := kvNat toks "pre"
  let picks := parseNatList ((kv toks "picks").getD "")
  let pushers : List Pusher := (List.range nT).flatMap fun t => (List.range per).map fun k => ({ v := ⟨100 * t + k, k % 3⟩ } : Pusher)
  let mut st : RaceState := ⟨(List.range pre).map fun s => ⟨1000 + s, 0⟩, pushers⟩
  let mut started : Array Bool := Array.replicate nT false
  let mut cur : Array Nat := Array.replicate nT 0          -- index of the push the thread is working on
  let mut attempts : Array Nat := Array.replicate nT 0
  let mut stray := 0
  for t in picks do
    if t ≥ nT then stray := stray + 1
    else if !started[t]! then started := started.set! t true
    else if cur[t]! ≥ per then stray := stray + 1
    else
      let idx := t * per + cur[t]!
      st := raceStep st idx
      attempts := attempts.set! t (attempts[t]! + 1)
      match st.pushers[idx]? with
      | some p => if p.done.isSome then cur := cur.set! t (cur[t]! + 1)
      | none => pure ()
  let order := ",".intercalate (st.chain.map fun v => toString v.serial)
  let unfinished := (List.range nT).filter fun t => cur[t]! < per
  let refsOk := (List.range (nT * per)).all fun idx =>
    match st.pushers[idx]? with
    | some p => match p.done with
      | some i => st.chain[i]? == some p.v
      | none => true
    | none => false
  return s!"order={order} attempts={",".intercalate (attempts.toList.map toString)} unfinished={unfinished.length} stray={stray} refs={refsOk}"

end Unimock.Driver
