import Unimock.Model.Lifecycle
/-!
# The fixed universe of mocked methods used by the runtime correspondence scenarios

Mirror of `/verif/harness/src/universe.rs`. Method ids 0..7: two traits `U0`, `U1` with four
methods each: `a` (unmock fn), `b` (nothing), `c` (default body), `d` (default body + unmock fn).
Inputs are `Nat` codes 0..7, outputs `Int`.
-/
namespace Unimock.Driver
open Unimock

def traitName (mid : Nat) : String := if mid / 4 == 0 then "U0" else "U1"
def methodName (mid : Nat) : String :=
  match mid % 4 with | 0 => "a" | 1 => "b" | 2 => "c" | _ => "d"

def methodInfo (mid : Nat) : MethodInfo :=
  if mid == 8 then { id := 8, trait := "U2", name := "r", hasDefaultImpl := false }
  else if mid == 9 then { id := 9, trait := "U2", name := "consume", hasDefaultImpl := true }
  else
  { id := mid, trait := traitName mid, name := methodName mid,
    hasDefaultImpl := mid % 4 == 2 || mid % 4 == 3,
    partialByDefault := false,
    unmockFn := mid % 4 == 0 || mid % 4 == 3 }

/-- sibling method `k` steps further in the same trait -/
def sibling (mid k : Nat) : Nat := (mid / 4) * 4 + (mid + k) % 4

/-- real functions (`unmock_with`): arg 0..3 leaf; 4: one nested call; 5: recursion through the same
    method with arg 4; 6: user panic; 7: two nested calls. Nested calls go through the mock. -/
def realProg (mid : Nat) (a : Nat) : Prog Nat Int :=
  let leaf : Int := 2000 + 10 * (mid : Int) + (a : Int)
  .log (.real mid a) <|
  match a with
  | 4 => .call (methodInfo (sibling mid 1)) 0 fun v => .done (some (leaf + v))
  | 5 => .call (methodInfo mid) 4 fun v => .done (some (leaf + v))
  | 6 => .done none
  | 7 => .call (methodInfo (sibling mid 1)) 1 fun v =>
         .call (methodInfo (sibling mid 2)) 2 fun w => .done (some (leaf + v + w))
  | _ => .done (some leaf)

/-- default bodies run on the `DefaultImplDelegator`: nested calls to *required* methods (a, b) go
    through the mock, nested calls to *provided* methods (c, d) run that default body directly. -/
def dfltProg : Nat → Nat → Nat → Prog Nat Int
  | 0, _, _ => .done none
  | _+1, 9, a =>
    .log (.dflt 9 a) <| .call (methodInfo 8) a fun v => if a == 6 then .done none else .done (some (4000 + v))
  | fuel+1, mid, a =>
    let leaf : Int := 3000 + 10 * (mid : Int) + (a : Int)
    let sub (m : Nat) (x : Nat) (k : Int → Prog Nat Int) : Prog Nat Int :=
      if (methodInfo m).hasDefaultImpl then (dfltProg fuel m x).bind k else .call (methodInfo m) x k
    .log (.dflt mid a) <|
    match a with
    | 4 => sub (sibling mid 1) 0 fun v => .done (some (leaf + v))
    | 5 => sub mid 4 fun v => .done (some (leaf + v))
    | 6 => .done none
    | 7 => sub (sibling mid 1) 1 fun v => sub (sibling mid 2) 2 fun w => .done (some (leaf + v + w))
    | _ => .done (some leaf)

/-- answer function `f`: `f % 10 = 9` panics (user code), `f % 10 = 7` lends out a clone of the mock (`u.make_ref(u.clone())`), `f % 10 = 8` calls the next sibling with
    arg 0 and adds, otherwise returns `-(f*10 + a)` -/
def answerProg (f : Nat) (m : MethodInfo) (a : Nat) : Prog Nat Int :=
  let leaf : Int := - ((f : Int) * 10 + (a : Int))
  .log (.answer f a) <|
  if f % 10 == 9 then .done none
  else if f % 10 == 7 then .park (.done (some leaf))
  else if f % 10 == 8 then .call (methodInfo (sibling m.id 1)) 0 fun v => .done (some (leaf + v))
  else .done (some leaf)

def env : Env Nat Int :=
  { answer := answerProg
    real := fun m a => realProg m.id a
    dflt := fun m a => dfltProg 8 m.id a }

end Unimock.Driver
