def hello := "world"
