import Unimock.Model.Core
/-!
# The generated method body: what happens after `eval`

Mirrors the `match eval(..) { Return | Continue(Answer) | Continue(Unmock) | Continue(CallDefaultImpl) | cont => cont.report() }`
arms emitted by `unimock_macros/src/unimock/mod.rs`, with user code (answer functions, real
implementations registered with `unmock_with`, default bodies) represented as interaction trees
over calls back into the same mock.
-/
namespace Unimock

inductive LogEntry (α : Type)
  | answer (f : Nat) (a : α)
  | real (m : Nat) (a : α)
  | dflt (m : Nat) (a : α)
  deriving Repr, DecidableEq

/-- User code that may call back into the mock: an interaction tree.
    `done none` = the user code panics. -/
inductive Prog (α ρ : Type)
  | done (r : Option ρ)
  | call (m : MethodInfo) (a : α) (k : ρ → Prog α ρ)
  | log (e : LogEntry α) (k : Prog α ρ)
  /-- user code lends out a clone of the instance it was given: `u.make_ref(u.clone())` -/
  | park (k : Prog α ρ)

/-- sequential composition of user code -/
def Prog.bind {α ρ} : Prog α ρ → (ρ → Prog α ρ) → Prog α ρ
  | .done none, _ => .done none
  | .done (some v), f => f v
  | .call m a k, f => .call m a fun v => (k v).bind f
  | .log e k, f => .log e (k.bind f)
  | .park k, f => .park (k.bind f)

structure Env (α ρ : Type) where
  answer : Nat → MethodInfo → α → Prog α ρ
  real : MethodInfo → α → Prog α ρ
  dflt : MethodInfo → α → Prog α ρ

inductive CallOutcome (ρ : Type)
  | ret (v : ρ)
  | mockPanic (e : MockError)
  | userPanic
  | outOfFuel
  deriving Repr

structure CallResult (α ρ : Type) where
  shared : Shared α ρ
  log : List (LogEntry α)
  out : CallOutcome ρ
  /-- Deepest helper level that had to exist: a default body called on the instance at helper
      level `l` (0 = the instance itself) runs on the `DefaultImplDelegator` stored in that
      instance's cell, i.e. on helper level `l+1`, which is created on first use. -/
  helperDepth : Nat := 0
  /-- clones parked in value chains of the instance (or of its helpers) during the call -/
  parked : Nat := 0

mutual
/-- one call of a generated trait method on an instance (helper level `lvl`) sharing `s` -/
def callMethod {α ρ} (env : Env α ρ) : Nat → Nat → Shared α ρ → MethodInfo → α → CallResult α ρ
  | 0, _, s, _, _ => ⟨s, [], .outOfFuel, 0, 0⟩
  | fuel+1, lvl, s, m, a =>
    match call s m a with
    | (s, .ret v) => ⟨s, [], .ret v, 0, 0⟩
    | (s, .err e) => ⟨s, [], .mockPanic e, 0, 0⟩
    | (s, .userPanic) => ⟨s, [], .userPanic, 0, 0⟩
    | (s, .contAnswer f) =>
      -- the answer function receives the instance it was called on
      runProg env fuel lvl s (env.answer f m a)
    | (s, .contUnmock) =>
      if m.unmockFn then
        runProg env fuel lvl s (env.real m a)
      else ⟨s.induce (.cannotUnmock m), [], .mockPanic (.cannotUnmock m), 0, 0⟩
    | (s, .contDefault) =>
      if m.hasDefaultImpl then
        -- the default body runs on the delegator: nested calls happen one helper level down
        let r := runProg env fuel (lvl + 1) s (env.dflt m a)
        { r with helperDepth := max (lvl + 1) r.helperDepth }
      else ⟨s.induce (.noDefaultImpl m), [], .mockPanic (.noDefaultImpl m), 0, 0⟩

/-- run user code; nested calls hit the same shared state -/
def runProg {α ρ} (env : Env α ρ) : Nat → Nat → Shared α ρ → Prog α ρ → CallResult α ρ
  | _, _, s, .done none => ⟨s, [], .userPanic, 0, 0⟩
  | _, _, s, .done (some v) => ⟨s, [], .ret v, 0, 0⟩
  | 0, _, s, .call _ _ _ => ⟨s, [], .outOfFuel, 0, 0⟩
  | 0, _, s, .log _ _ => ⟨s, [], .outOfFuel, 0, 0⟩
  | 0, _, s, .park _ => ⟨s, [], .outOfFuel, 0, 0⟩
  | fuel+1, lvl, s, .log e k =>
    let r := runProg env fuel lvl s k
    { r with log := e :: r.log }
  | fuel+1, lvl, s, .park k =>
    let r := runProg env fuel lvl s k
    { r with parked := r.parked + 1 }
  | fuel+1, lvl, s, .call m a k =>
    let r := callMethod env fuel lvl s m a
    match r.out with
    | .ret v =>
      let r2 := runProg env fuel lvl r.shared (k v)
      { r2 with log := r.log ++ r2.log, helperDepth := max r.helperDepth r2.helperDepth, parked := r.parked + r2.parked }
    | _ => r
end

end Unimock
