import Unimock.Model.Core
/-!
# The generated method body: what happens after `eval`

Mirrors the `match eval(..) { Return | Continue(Answer) | Continue(Unmock) | Continue(CallDefaultImpl) | cont => cont.report() }`
arms emitted by `unimock_macros/src/unimock/mod.rs`, with user code (answer functions, real
implementations registered with `unmock_with`, default bodies) represented as interaction trees
over calls back into the same mock.
-/
namespace Unimock

inductive LogEntry (α : Type)
  | answer (f : Nat) (a : α)
  | real (m : Nat) (a : α)
  | dflt (m : Nat) (a : α)
  deriving Repr, DecidableEq

/-- User code that may call back into the mock: an interaction tree.
    `done none` = the user code panics. -/
inductive Prog (α ρ : Type)
  | done (r : Option ρ)
  | call (m : MethodInfo) (a : α) (k : ρ → Prog α ρ)
  | log (e : LogEntry α) (k : Prog α ρ)

/-- sequential composition of user code -/
def Prog.bind {α ρ} : Prog α ρ → (ρ → Prog α ρ) → Prog α ρ
  | .done none, _ => .done none
  | .done (some v), f => f v
  | .call m a k, f => .call m a fun v => (k v).bind f
  | .log e k, f => .log e (k.bind f)

structure Env (α ρ : Type) where
  answer : Nat → MethodInfo → α → Prog α ρ
  real : MethodInfo → α → Prog α ρ
  dflt : MethodInfo → α → Prog α ρ

inductive CallOutcome (ρ : Type)
  | ret (v : ρ)
  | mockPanic (e : MockError)
  | userPanic
  | outOfFuel
  deriving Repr

structure CallResult (α ρ : Type) where
  shared : Shared α ρ
  log : List (LogEntry α)
  out : CallOutcome ρ
  /-- the default body ran through `AsRef<DefaultImplDelegator>` (helper clone created if absent) -/
  usedHelper : Bool := false

mutual
/-- one call of a generated trait method on an instance sharing `s` -/
def callMethod {α ρ} (env : Env α ρ) : Nat → Shared α ρ → MethodInfo → α → CallResult α ρ
  | 0, s, _, _ => ⟨s, [], .outOfFuel, false⟩
  | fuel+1, s, m, a =>
    match call s m a with
    | (s, .ret v) => ⟨s, [], .ret v, false⟩
    | (s, .err e) => ⟨s, [], .mockPanic e, false⟩
    | (s, .userPanic) => ⟨s, [], .userPanic, false⟩
    | (s, .contAnswer f) =>
      runProg env fuel s (env.answer f m a)
    | (s, .contUnmock) =>
      if m.unmockFn then
        runProg env fuel s (env.real m a)
      else ⟨s.induce (.cannotUnmock m), [], .mockPanic (.cannotUnmock m), false⟩
    | (s, .contDefault) =>
      if m.hasDefaultImpl then
        let r := runProg env fuel s (env.dflt m a)
        { r with usedHelper := true }
      else ⟨s.induce (.noDefaultImpl m), [], .mockPanic (.noDefaultImpl m), false⟩

/-- run user code; nested calls hit the same shared state -/
def runProg {α ρ} (env : Env α ρ) : Nat → Shared α ρ → Prog α ρ → CallResult α ρ
  | _, s, .done none => ⟨s, [], .userPanic, false⟩
  | _, s, .done (some v) => ⟨s, [], .ret v, false⟩
  | 0, s, .call _ _ _ => ⟨s, [], .outOfFuel, false⟩
  | 0, s, .log _ _ => ⟨s, [], .outOfFuel, false⟩
  | fuel+1, s, .log e k =>
    let r := runProg env fuel s k
    { r with log := e :: r.log }
  | fuel+1, s, .call m a k =>
    let r := callMethod env fuel s m a
    match r.out with
    | .ret v =>
      let r2 := runProg env fuel r.shared (k v)
      { r2 with log := r.log ++ r2.log }
    | _ => { r with usedHelper := false }
end

end Unimock
