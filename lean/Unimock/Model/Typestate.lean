/-!
# The type-state of the clause builder (src/build.rs, src/property.rs, src/output/owning.rs)

Which chains of builder calls type-check. A builder value is in one of five states (the five builder
structs); each public method is available in some states, possibly under a trait bound on the marker
types `O: Ordering` (`InOrder | InAnyOrder`), `R: Repetition` (`Exact | AtLeast`) or on the value type
(`IntoReturnOnce` — any value — versus `IntoReturn` — requires `Clone`).
-/
namespace Unimock.Typestate

inductive Ord | inOrder | anyOrder
  deriving Repr, DecidableEq

inductive Rep | exact | atLeast
  deriving Repr, DecidableEq

/-- the builder structs -/
inductive St
  /-- `DefineResponse<F, O>` (after `some_call` / `next_call`) -/
  | defineResponse (o : Ord)
  /-- `DefineMultipleResponses<F, O>` (after `each_call`, `Each::call`, `then`) -/
  | defineMulti (o : Ord)
  /-- `QuantifyReturnValue<F, T, O>`; `clone`: the value type satisfies `IntoReturn` (is `Clone`) -/
  | quantifyRV (o : Ord) (clone : Bool)
  /-- `Quantify<F, O>` -/
  | quantify (o : Ord)
  /-- `QuantifiedResponse<F, O, R>` -/
  | quantified (o : Ord) (r : Rep)
  deriving Repr, DecidableEq

/-- how a chain starts -/
inductive Entry | nextCall | someCall | eachCall | stubCall
  deriving Repr, DecidableEq

/-- the builder methods -/
inductive Call
  /-- `returns(v)`; `clone`: `v`'s type is `Clone` (satisfies `IntoReturn`), every value satisfies `IntoReturnOnce` -/
  | returns (clone : Bool)
  /-- the response definitions shared by both `Define*` structs: `returns_default`, `answers`, `panics`,
      `applies_unmocked`, `applies_default_impl`, … -/
  | other
  | once
  | nTimes
  | atLeastTimes
  | then_
  deriving Repr, DecidableEq

def Entry.start : Entry → St
  | .nextCall => .defineResponse .inOrder
  | .someCall => .defineResponse .anyOrder
  | .eachCall => .defineMulti .anyOrder
  | .stubCall => .defineMulti .anyOrder

/-- one method call: the next builder state, or `none` when rustc rejects the call -/
def step : St → Call → Option St
  | .defineResponse o, .returns c => some (.quantifyRV o c)            -- T: IntoReturnOnce
  | .defineResponse o, .other => some (.quantify o)
  | .defineMulti o, .returns true => some (.quantify o)                -- T: IntoReturn
  | .defineMulti _, .returns false => none
  | .defineMulti o, .other => some (.quantify o)
  | .quantifyRV o _, .once => some (.quantified o .exact)
  | .quantifyRV o true, .nTimes => some (.quantified o .exact)         -- T: IntoReturn
  | .quantifyRV _ false, .nTimes => none
  | .quantifyRV .anyOrder true, .atLeastTimes => some (.quantified .anyOrder .atLeast)
  | .quantifyRV _ _, .atLeastTimes => none
  | .quantify o, .once => some (.quantified o .exact)
  | .quantify o, .nTimes => some (.quantified o .exact)
  | .quantify .anyOrder, .atLeastTimes => some (.quantified .anyOrder .atLeast)
  | .quantify .inOrder, .atLeastTimes => none
  | .quantified o .exact, .then_ => some (.defineMulti o)              -- R: Repetition<Kind = Exact>
  | _, _ => none

def run : St → List Call → Option St
  | s, [] => some s
  | s, c :: cs => match step s c with
    | some s' => run s' cs
    | none => none

/-- the struct implements `Clause` (can be handed to `Unimock::new`, or be a tuple member) -/
def St.isClause : St → Bool
  | .defineResponse _ => false
  | .defineMulti _ => false
  | _ => true

/-- does the whole program type-check? At top level the final value must be a `Clause`; inside a
    `stub` closure the chain is an expression statement and may stop anywhere. -/
def accepts (e : Entry) (cs : List Call) : Bool :=
  match run e.start cs with
  | none => false
  | some s => e == .stubCall || s.isClause

/-- index of the first rejected call (`cs.length` = the final `Clause` requirement), `none` if accepted -/
def firstReject (e : Entry) (cs : List Call) : Option Nat :=
  go e.start cs 0
where
  go : St → List Call → Nat → Option Nat
    | s, [], k => if e == .stubCall || s.isClause then none else some k
    | s, c :: cs, k => match step s c with
      | some s' => go s' cs (k + 1)
      | none => some k

/-! ### the same transition function, interpreted from a table of method *signatures* (`tools/translate_typestate.py`) -/

/-- what the signature of one builder method says -/
structure Sig where
  /-- `where T: IntoReturn<..>`: the value must be `Clone` (`IntoReturnOnce` is satisfied by every value) -/
  needClone : Bool
  /-- `where O: Ordering<Kind = InAnyOrder>` -/
  needAnyOrder : Bool
  /-- `where R: Repetition<Kind = Exact>` -/
  needExactRep : Bool
  /-- the struct returned: 0 DefineResponse, 1 DefineMultipleResponses, 2 QuantifyReturnValue, 3 Quantify, 4 QuantifiedResponse -/
  result : Nat
  /-- the repetition marker of the result, if it has one -/
  rep : Option Rep
  deriving Repr, DecidableEq

def St.tag : St → Nat
  | .defineResponse _ => 0 | .defineMulti _ => 1 | .quantifyRV _ _ => 2 | .quantify _ => 3 | .quantified _ _ => 4

def St.ord : St → Ord
  | .defineResponse o | .defineMulti o | .quantifyRV o _ | .quantify o | .quantified o _ => o

def Call.tag : Call → Nat
  | .returns _ => 0 | .other => 1 | .once => 2 | .nTimes => 3 | .atLeastTimes => 4 | .then_ => 5

/-- is the value at hand `Clone`? (`returns(v)`: the argument; on `QuantifyReturnValue`: the value it holds) -/
def cloneAt : St → Call → Bool
  | _, .returns c => c
  | .quantifyRV _ c, _ => c
  | _, _ => true

def St.rep? : St → Option Rep
  | .quantified _ r => some r
  | _ => none

def mkSt (tag : Nat) (o : Ord) (rep : Option Rep) (clone : Bool) : Option St :=
  match tag, rep with
  | 0, _ => some (.defineResponse o)
  | 1, _ => some (.defineMulti o)
  | 2, _ => some (.quantifyRV o clone)
  | 3, _ => some (.quantify o)
  | 4, some r => some (.quantified o r)
  | _, _ => none

/-- one builder call, decided from the signature table and the marker kinds alone -/
def stepOf (table : List ((Nat × Nat) × Sig)) (ordKind : Ord → Ord) (repKind : Rep → Rep) (s : St) (c : Call) : Option St :=
  match table.lookup (s.tag, c.tag) with
  | none => none                                   -- the struct has no such method
  | some sig =>
    if (!sig.needClone || cloneAt s c) &&
       (!sig.needAnyOrder || ordKind s.ord == .anyOrder) &&
       (!sig.needExactRep || (s.rep?.map repKind) == some .exact)
    then mkSt sig.result s.ord sig.rep (cloneAt s c)
    else none

end Unimock.Typestate
