import Unimock.Model.Core
/-!
# Calls as sequences of atomic steps, interleaved by an arbitrary schedule

The real runtime touches shared mutable state in exactly four ways, each a single atomic
operation (`src/state.rs`: `next_ordered_call_index.fetch_add`; `src/counter.rs`:
`actual_count.fetch_add`; `src/output/owning.rs`: `mutex.locked(|o| o.take())`; `src/lib.rs`:
`panic_reasons.locked(push)`); everything else a call does reads immutable configuration.
This file models a call as that sequence of atomic actions with thread-local computation in
between, and a multi-threaded execution as any interleaving of such steps.
-/
namespace Unimock

/-- the atomic operations on shared state -/
inductive Action
  | bumpGlobal
  | bumpPat (id pi : Nat)
  | takeSlot (id pi ri : Nat)
  | pushReason (e : MockError)
  deriving Repr, DecidableEq

inductive ActResult
  | idx (n : Nat)       -- value handed out by a fetch_add
  | took (ok : Bool)    -- the single-use slot was still full
  | unit
  deriving Repr, DecidableEq

variable {α ρ : Type}

def Shared.mapPat (s : Shared α ρ) (id pi : Nat) (f : Pattern α ρ → Pattern α ρ) : Shared α ρ :=
  { s with mockers := s.mockers.map fun m =>
      if m.info.id = id then { m with pats := m.pats.modify pi f } else m }

def Shared.patCount (s : Shared α ρ) (id pi : Nat) : Nat :=
  match s.find id with
  | some fm => match fm.pats[pi]? with
    | some p => p.count
    | none => 0
  | none => 0

def Shared.slotTaken (s : Shared α ρ) (id pi ri : Nat) : Bool :=
  match s.find id with
  | some fm => match fm.pats[pi]? with
    | some p => match p.responders[ri]? with
      | some r => r.taken
      | none => true
    | none => true
  | none => true

/-- one atomic step on the shared state -/
def applyAction (s : Shared α ρ) : Action → Shared α ρ × ActResult
  | .bumpGlobal => ({ s with nextOrdered := s.nextOrdered + 1 }, .idx s.nextOrdered)
  | .bumpPat id pi => (s.mapPat id pi fun p => { p with count := p.count + 1 }, .idx (s.patCount id pi))
  | .takeSlot id pi ri =>
    if s.slotTaken id pi ri then (s, .took false)
    else (s.mapPat id pi fun p => { p with responders := p.responders.modify ri fun r => { r with taken := true } }, .took true)
  | .pushReason e => (s.induce e, .unit)

/-- run a sequence of atomic actions (any interleaving of any threads' actions is such a sequence) -/
def runActions (s : Shared α ρ) : List Action → Shared α ρ × List ActResult
  | [] => (s, [])
  | a :: as =>
    let (s1, r) := applyAction s a
    let (s2, rs) := runActions s1 as
    (s2, r :: rs)

/-! ## thread programs -/

/-- outcome of one call as observed by the calling thread -/
inductive ThreadOut (ρ : Type)
  | ret (v : ρ)
  | cont (kind : Nat)            -- answer / unmock / default continuation (not run in this model)
  | err (e : MockError)
  | userPanic
  deriving Repr, DecidableEq

/-- where a thread is paused: always immediately before an atomic action -/
inductive Phase (α ρ : Type)
  | notStarted
  | atGlobal (m : MethodInfo) (a : α)
  | atPat (m : MethodInfo) (pi : Nat)
  | atTake (m : MethodInfo) (pi ri : Nat) (v : ρ)
  | atPush (e : MockError)
  | finished

structure ThreadSt (α ρ : Type) where
  todo : List (MethodInfo × α)
  phase : Phase α ρ := .notStarted
  outs : List (ThreadOut ρ) := []
  tags : List String := []

/-- thread-local prefix of a call: everything up to its first atomic action -/
def beginCall (s : Shared α ρ) (m : MethodInfo) (a : α) : Sum (ThreadOut ρ) (Phase α ρ) :=
  match s.find m.id with
  | none =>
    if m.hasDefaultImpl then .inl (.cont 2)
    else if m.partialByDefault then .inl (.cont 1)
    else match s.fallback with
      | .error => .inr (.atPush (.noMockImplementation m))
      | .unmock => .inl (.cont 1)
  | some fm =>
    match fm.mode with
    | .anyOrder =>
      match scan fm.pats a 0 with
      | none => match s.fallback with
        | .error => .inr (.atPush (.noMatchingCallPatterns m))
        | .unmock => .inl (.cont 1)
      | some (pi, .noMatcher) => .inr (.atPush (.noMatcherFunction m pi))
      | some (_, .userPanic) => .inl .userPanic
      | some (pi, .accept) => .inr (.atPat m pi)
    | .inOrder => .inr (.atGlobal m a)

/-- after the global index `idx` was obtained (thread-local) -/
def afterGlobal (s : Shared α ρ) (m : MethodInfo) (a : α) (idx : Nat) : Sum (ThreadOut ρ) (Phase α ρ) :=
  match s.find m.id with
  | none => .inr (.atPush (.callOrderNotMatched m idx none))
  | some fm =>
    match findForOrder fm.pats idx with
    | none => .inr (.atPush (.callOrderNotMatched m idx (s.findOrderedExpected idx)))
    | some pi =>
      match fm.pats[pi]? with
      | none => .inr (.atPush (.callOrderNotMatched m idx none))
      | some p =>
        match tryPat p a with
        | some .noMatcher => .inr (.atPush (.noMatcherFunction m pi))
        | some .userPanic => .inl .userPanic
        | none => .inr (.atPush (.inputsNotMatchedInCallOrder m idx pi))
        | some .accept => .inr (.atPat m pi)

/-- after the pattern's position `c` was obtained (thread-local): responder lookup -/
def afterPat (s : Shared α ρ) (m : MethodInfo) (pi c : Nat) : Sum (ThreadOut ρ) (Phase α ρ) :=
  match s.find m.id with
  | none => .inr (.atPush (.noOutputAvailable m pi))
  | some fm =>
    match fm.pats[pi]? with
    | none => .inr (.atPush (.noOutputAvailable m pi))
    | some p =>
      match findResponderIdx p.responders c with
      | none => .inr (.atPush (.noOutputAvailable m pi))
      | some ri =>
        match p.responders[ri]? with
        | none => .inr (.atPush (.noOutputAvailable m pi))
        | some r =>
          match r.resp with
          | .ret v true => .inr (.atTake m pi ri v)
          | .ret v false => .inl (.ret v)
          | .answer _ => .inl (.cont 0)
          | .applyDefaultImpl => .inl (.cont 2)
          | .unmock => .inl (.cont 1)
          | .panic msg => .inr (.atPush (.explicitPanic m pi msg))

/-- a call produced its outcome: record it and run the thread-local prefix of the next call(s)
    until the thread pauses before an atomic action or runs out of calls -/
def settle (s : Shared α ρ) : Nat → ThreadSt α ρ → Sum (ThreadOut ρ) (Phase α ρ) → ThreadSt α ρ
  | _, t, .inr ph => { t with phase := ph }
  | 0, t, .inl o => { t with outs := t.outs ++ [o], phase := .finished }
  | fuel+1, t, .inl o =>
    let t := { t with outs := t.outs ++ [o] }
    match t.todo with
    | [] => { t with phase := .finished }
    | (m, a) :: rest => settle s fuel { t with todo := rest } (beginCall s m a)

def actionTag : Action → String
  | .bumpGlobal => "atomic.fetch_add"
  | .bumpPat _ _ => "atomic.fetch_add"
  | .takeSlot _ _ _ => "lock"
  | .pushReason _ => "lock"

def Phase.action : Phase α ρ → Option Action
  | .atGlobal _ _ => some .bumpGlobal
  | .atPat m pi => some (.bumpPat m.id pi)
  | .atTake m pi ri _ => some (.takeSlot m.id pi ri)
  | .atPush e => some (.pushReason e)
  | _ => none

/-- the picked thread runs from where it is paused to its next pause (or its end) -/
def threadStep (s : Shared α ρ) (t : ThreadSt α ρ) : Shared α ρ × ThreadSt α ρ × Option Action :=
  let fuel := t.todo.length + 1
  match t.phase with
  | .finished => (s, t, none)
  | .notStarted =>
    match t.todo with
    | [] => (s, { t with phase := .finished }, none)
    | (m, a) :: rest => (s, settle s fuel { t with todo := rest } (beginCall s m a), none)
  | .atGlobal m a =>
    let (s1, r) := applyAction s .bumpGlobal
    let idx := match r with | .idx n => n | _ => 0
    (s1, settle s1 fuel t (afterGlobal s1 m a idx), some .bumpGlobal)
  | .atPat m pi =>
    let (s1, r) := applyAction s (.bumpPat m.id pi)
    let c := match r with | .idx n => n | _ => 0
    (s1, settle s1 fuel t (afterPat s1 m pi c), some (.bumpPat m.id pi))
  | .atTake m pi ri v =>
    let (s1, r) := applyAction s (.takeSlot m.id pi ri)
    match r with
    | .took true => (s1, settle s1 fuel t (.inl (.ret v)), some (.takeSlot m.id pi ri))
    | _ => (s1, { t with phase := .atPush (.cannotReturnValueMoreThanOnce m pi) }, some (.takeSlot m.id pi ri))
  | .atPush e =>
    let (s1, _) := applyAction s (.pushReason e)
    (s1, settle s1 fuel t (.inl (.err e)), some (.pushReason e))

structure ParState (α ρ : Type) where
  shared : Shared α ρ
  threads : List (ThreadSt α ρ)
  /-- the atomic actions performed so far, in execution order, with the thread that did them -/
  trace : List (Nat × Action) := []

def ThreadSt.isFinished (t : ThreadSt α ρ) : Bool := match t.phase with | .finished => true | _ => false

/-- one scheduling decision: `choice` indexes the unfinished threads in ascending order -/
def parStep (p : ParState α ρ) (choice : Nat) : ParState α ρ :=
  let enabled := (p.threads.zipIdx.filter fun x => !x.1.isFinished).map (·.2)
  match enabled[min choice (enabled.length - 1)]? with
  | none => p
  | some tid =>
    match p.threads[tid]? with
    | none => p
    | some t =>
      let (s1, t1, act) := threadStep p.shared t
      let t1 := match act with
        | some a => { t1 with tags := t1.tags ++ [actionTag a] }
        | none => t1
      { shared := s1, threads := p.threads.set tid t1,
        trace := match act with | some a => p.trace ++ [(tid, a)] | none => p.trace }

def parRun (p : ParState α ρ) : List Nat → ParState α ρ
  | [] => p
  | c :: cs => parRun (parStep p c) cs

end Unimock
