/-!
# Requests racing for a composite single-use value (`src/output/deep/*.rs`, `src/output/owning.rs`)

A value configured through the single-use path whose kind is `Deep<…>` stores every owned leaf in its own
`Mutex<Option<T>>`. `GetOutput::output` asks the leaves left to right and `?` stops at the first empty
one: `Some((self.0.output()?, self.1.output()?, …))`. Each leaf access is one atomic step (one lock
acquisition); any number of threads may interleave these steps arbitrarily. Borrowed leaves involve no
shared mutable state and are left out.
-/
namespace Unimock.LeafRace

/-- one request: the next owned leaf it will ask, and whether it has hit an empty leaf -/
structure Req where
  pos : Nat := 0
  failed : Bool := false
  deriving Repr, DecidableEq

structure St where
  /-- `true` = the leaf still holds its value -/
  leaves : List Bool
  reqs : List Req
  deriving Repr, DecidableEq

def Req.done (n : Nat) (r : Req) : Bool := r.failed || n ≤ r.pos

/-- the request received the whole value -/
def Req.received (n : Nat) (r : Req) : Bool := !r.failed && n ≤ r.pos

def init (n k : Nat) : St := ⟨List.replicate n true, List.replicate k {}⟩

/-- requester `i` performs its next atomic step: lock the next leaf, take it or give up -/
def step (s : St) (i : Nat) : St :=
  match s.reqs[i]? with
  | none => s
  | some r =>
    if r.done s.leaves.length then s
    else if s.leaves[r.pos]? = some true then
      { leaves := s.leaves.set r.pos false, reqs := s.reqs.set i { r with pos := r.pos + 1 } }
    else { s with reqs := s.reqs.set i { r with failed := true } }

/-- an arbitrary schedule: which requester moves next -/
def run (s : St) : List Nat → St
  | [] => s
  | i :: is => run (step s i) is

end Unimock.LeafRace
