/-!
# Output kinds: how a configured return value is stored and produced (`src/output/**`)

`intoReturn once k v` models `IntoReturnOnce::into_return_once` (`once = true`) and
`IntoReturn::into_return` (`once = false`) for the output kind `k`; `output` models
`GetOutput::output`, including the left-to-right evaluation with `?` (a failing element stops the
evaluation; elements before it have already been asked) and the single-use slot of `Owned`.
Lists are spelled out as mutual inductives so that all functions are structurally recursive.
-/
namespace Unimock.Output

mutual
inductive Kind
  | owning                      -- `Owning<T>`: the whole value is one owned leaf
  | lending                     -- `Lending<T>`: `&T` borrowed from the mock
  | staticRef                   -- `StaticRef<T>`
  | shallowOpt                  -- `Shallow<Option<&T>>`
  | shallowRes                  -- `Shallow<Result<&T, E>>` (the `Err` side is owned)
  | shallowVec                  -- `Shallow<Vec<&T>>`
  | deepOpt (k : Kind)
  | deepRes (t e : Kind)
  | deepVec (k : Kind)
  | deepPoll (k : Kind)
  | deepTup (ks : KindList)
inductive KindList
  | nil
  | cons (k : Kind) (ks : KindList)
end

mutual
/-- shapes of configured values and of observed outputs -/
inductive Val
  | leaf (n : Nat)
  | none
  | some (v : Val)
  | ok (v : Val)
  | err (v : Val)
  | vec (vs : ValList)
  | ready (v : Val)
  | pending
  | tup (vs : ValList)
inductive ValList
  | nil
  | cons (v : Val) (vs : ValList)
end

mutual
inductive Stored
  | owned (v : Val) (once : Bool)   -- `Owned<T>`: clone per call, or a single-use slot
  | spent                           -- a single-use slot that has been emptied
  | lent (v : Val)                  -- `Lent<T>`, `Reference<T>`, boxed `Borrow<T>`
  | none
  | some (s : Stored)
  | ok (s : Stored)
  | err (s : Stored)
  | vec (ss : StoredList)
  | ready (s : Stored)
  | pending
  | tup (ss : StoredList)
inductive StoredList
  | nil
  | cons (s : Stored) (ss : StoredList)
end

/-! ## `into_return` / `into_return_once` -/

def lentList : ValList → StoredList
  | .nil => .nil
  | .cons v vs => .cons (.lent v) (lentList vs)

mutual
def intoReturn (once : Bool) : Kind → Val → Option Stored
  | .owning, v => some (.owned v once)
  | .lending, v => some (.lent v)
  | .staticRef, v => some (.lent v)
  | .shallowOpt, .none => some .none
  | .shallowOpt, .some v => some (.some (.lent v))
  | .shallowRes, .ok v => some (.ok (.lent v))
  | .shallowRes, .err v => some (.err (.owned v once))
  | .shallowVec, .vec vs => some (.vec (lentList vs))
  | .deepOpt _, .none => some .none
  | .deepOpt k, .some v => (intoReturn once k v).map .some
  | .deepRes t _, .ok v => (intoReturn once t v).map .ok
  | .deepRes _ e, .err v => (intoReturn once e v).map .err
  | .deepVec k, .vec vs => (intoReturnAll once k vs).map .vec
  | .deepPoll _, .pending => some .pending
  | .deepPoll k, .ready v => (intoReturn once k v).map .ready
  | .deepTup ks, .tup vs => (intoReturnZip once ks vs).map .tup
  | _, _ => none          -- ill-typed in Rust
def intoReturnAll (once : Bool) (k : Kind) : ValList → Option StoredList
  | .nil => some .nil
  | .cons v vs =>
    match intoReturn once k v, intoReturnAll once k vs with
    | some s, some ss => some (.cons s ss)
    | _, _ => none
def intoReturnZip (once : Bool) : KindList → ValList → Option StoredList
  | .nil, .nil => some .nil
  | .cons k ks, .cons v vs =>
    match intoReturn once k v, intoReturnZip once ks vs with
    | some s, some ss => some (.cons s ss)
    | _, _ => none
  | _, _ => none
end

/-! ## `GetOutput::output` -/

mutual
/-- the produced value (`none` = `None`, reported as `CannotReturnValueMoreThanOnce`) and the state afterwards -/
def output : Stored → Option Val × Stored
  | .owned v false => (some v, .owned v false)
  | .owned v true => (some v, .spent)
  | .spent => (none, .spent)
  | .lent v => (some v, .lent v)
  | .none => (some .none, .none)
  | .pending => (some .pending, .pending)
  | .some s => let r := output s; (r.1.map .some, .some r.2)
  | .ok s => let r := output s; (r.1.map .ok, .ok r.2)
  | .err s => let r := output s; (r.1.map .err, .err r.2)
  | .ready s => let r := output s; (r.1.map .ready, .ready r.2)
  | .vec ss => let r := outputList ss; (r.1.map .vec, .vec r.2)
  | .tup ss => let r := outputList ss; (r.1.map .tup, .tup r.2)
/-- elements are asked left to right; the first `None` stops the evaluation -/
def outputList : StoredList → Option ValList × StoredList
  | .nil => (some .nil, .nil)
  | .cons s ss =>
    let r := output s
    match r.1 with
    | Option.none => (Option.none, .cons r.2 ss)
    | Option.some v =>
      let rs := outputList ss
      (rs.1.map (.cons v), .cons r.2 rs.2)
end

/-! ## which configured values contain an owned leaf on their populated path -/

mutual
def hasOwned : Kind → Val → Bool
  | .owning, _ => true
  | .shallowRes, .err _ => true
  | .deepOpt k, .some v => hasOwned k v
  | .deepRes t _, .ok v => hasOwned t v
  | .deepRes _ e, .err v => hasOwned e v
  | .deepVec k, .vec vs => hasOwnedAll k vs
  | .deepPoll k, .ready v => hasOwned k v
  | .deepTup ks, .tup vs => hasOwnedZip ks vs
  | _, _ => false
def hasOwnedAll (k : Kind) : ValList → Bool
  | .nil => false
  | .cons v vs => hasOwned k v || hasOwnedAll k vs
def hasOwnedZip : KindList → ValList → Bool
  | .cons k ks, .cons v vs => hasOwned k v || hasOwnedZip ks vs
  | _, _ => false
end

end Unimock.Output
