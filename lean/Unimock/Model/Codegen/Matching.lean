/-!
# Model of `matching!` (`unimock_macros/src/matching/{mod,parse}.rs`) and of Rust pattern matching

`P`/`matchP` model the patterns of the generated grammar and their Rust semantics over a small value
universe; `generate` models what the macro emits (success arms in source order, each guarded by the
global guard and its own `eq!`/`ne!` comparisons; one diagnostics arm built from the LAST alternative,
present only without a global guard, placed after all success arms; a catch-all `false`);
`evalIR` gives that `match` expression its Rust semantics (first arm whose pattern matches and whose
guard holds).
-/
namespace Unimock.Matching

mutual
/-- argument values -/
inductive V
  | n (k : Nat)
  | none
  | some (v : V)
  | str (cs : List Nat)      -- a string (code points), seen through `AsRef<str>`
  | slice (xs : VList)       -- a slice, seen through `AsRef<[T]>`
inductive VList
  | nil
  | cons (v : V) (vs : VList)
end

mutual
inductive P
  | lit (k : Nat)
  | range (lo hi : Nat)              -- `lo..=hi`
  | wild
  | bind (x : Nat)                   -- identifier pattern
  | bindAt (x : Nat) (p : P)         -- `x @ p`
  | alt (ps : PList)                 -- `p | q | …`
  | some (p : P)
  | none
  | strLit (cs : List Nat)
  | sliceExact (ps : PList)          -- `[p, q]`
  | sliceRest (pre suf : PList)      -- `[p, .., q]`
inductive PList
  | nil
  | cons (p : P) (ps : PList)
end

abbrev Env := List (Nat × V)

def VList.length : VList → Nat
  | .nil => 0
  | .cons _ vs => vs.length + 1

def PList.length : PList → Nat
  | .nil => 0
  | .cons _ ps => ps.length + 1

def VList.drop : Nat → VList → VList
  | 0, vs => vs
  | _+1, .nil => .nil
  | n+1, .cons _ vs => VList.drop n vs

mutual
/-- Rust pattern matching: `some env` = matches with these bindings -/
def matchP : P → V → Option Env
  | .lit k, .n j => if k = j then some [] else none
  | .range lo hi, .n j => if lo ≤ j ∧ j ≤ hi then some [] else none
  | .wild, _ => some []
  | .bind x, v => some [(x, v)]
  | .bindAt x p, v => (matchP p v).map fun e => (x, v) :: e
  | .alt ps, v => matchAlt ps v
  | .some p, .some v => matchP p v
  | .none, .none => some []
  | .strLit cs, .str ds => if cs = ds then some [] else none
  | .sliceExact ps, .slice xs => if ps.length = xs.length then matchZip ps xs else none
  | .sliceRest pre suf, .slice xs =>
    if pre.length + suf.length ≤ xs.length then
      match matchZip pre xs with
      | some e1 => (matchZip suf (xs.drop (xs.length - suf.length))).map fun e2 => e1 ++ e2
      | none => none
    else none
  | _, _ => none
def matchAlt : PList → V → Option Env
  | .nil, _ => none
  | .cons p ps, v => match matchP p v with
    | some e => some e
    | none => matchAlt ps v
/-- element-wise matching of a prefix of `xs` -/
def matchZip : PList → VList → Option Env
  | .nil, _ => some []
  | .cons p ps, .cons x xs => match matchP p x with
    | some e => (matchZip ps xs).map fun e2 => e ++ e2
    | none => none
  | .cons _ _, .nil => none
end

/-- guards over bindings (bindings are references: `*x == c`) -/
inductive G
  | tt
  | eqc (x c : Nat)
  | ltc (x c : Nat)
  | and (a b : G)
  | or (a b : G)
  deriving Repr

def lookupN (e : Env) (x : Nat) : Option Nat :=
  match e.find? (·.1 = x) with
  | some (_, .n k) => some k
  | _ => none

def evalG (e : Env) : G → Bool
  | .tt => true
  | .eqc x c => lookupN e x == some c
  | .ltc x c => match lookupN e x with | some k => k < c | none => false
  | .and a b => evalG e a && evalG e b
  | .or a b => evalG e a || evalG e b

mutual
def beqV : V → V → Bool
  | .n a, .n b => a == b
  | .none, .none => true
  | .some a, .some b => beqV a b
  | .str a, .str b => a == b
  | .slice a, .slice b => beqVL a b
  | _, _ => false
def beqVL : VList → VList → Bool
  | .nil, .nil => true
  | .cons a as, .cons b bs => beqV a b && beqVL as bs
  | _, _ => false
end

/-- one element of an alternative: a pattern, or an `eq!(c)` / `ne!(c)` comparison -/
inductive Elem
  | pat (p : P)
  | cmp (isEq : Bool) (c : V)

structure Input where
  alts : List (List Elem)
  guard : Option G

/-! ## what the alternatives mean (the "equivalent Rust match") -/

def elemAccepts : Elem → V → Bool
  | .pat p, v => (matchP p v).isSome
  | .cmp true c, v => beqV v c
  | .cmp false c, v => !beqV v c

def elemEnv : Elem → V → Env
  | .pat p, v => (matchP p v).getD []
  | .cmp _ _, _ => []

def altEnv : List Elem → List V → Env
  | e :: es, v :: vs => elemEnv e v ++ altEnv es vs
  | _, _ => []

def altAccepts : List Elem → List V → Bool
  | [], [] => true
  | e :: es, v :: vs => elemAccepts e v && altAccepts es vs
  | _, _ => false

/-- the specification: a Rust `match` on the arguments with one arm per alternative
    (`pattern if guard && comparisons`) selects an arm -/
def specAccept (inp : Input) (args : List V) : Bool :=
  if inp.alts.isEmpty then true else
  inp.alts.any fun alt => altAccepts alt args && evalG (altEnv alt args) (inp.guard.getD .tt)

/-! ## what the macro generates -/

inductive Arm
  /-- `(<pats with eq!/ne! replaced by bindings>) if <global guard> && <comparisons> => true` -/
  | success (alt : List Elem) (guard : Option G)
  /-- `_ if reporter.enabled() => { <per-argument checks of this alternative>; false }` -/
  | diag (alt : List Elem)
  | catchAll

structure IR where
  /-- `matching!()`: `|_, _| true` -/
  acceptAll : Bool
  arms : List Arm

def generate (inp : Input) : IR :=
  if inp.alts.isEmpty then { acceptAll := true, arms := [] } else
  { acceptAll := false,
    arms := inp.alts.map (fun a => Arm.success a inp.guard) ++
            (match inp.guard, inp.alts.getLast? with
             | none, some last => [Arm.diag last]
             | _, _ => []) ++ [Arm.catchAll] }

/-- does the diagnostics statement generated for this element report a mismatch: wildcards get no
    statement at all, every other element is re-checked against its argument -/
def elemReports : Elem → V → Bool
  | .pat .wild, _ => false
  | e, v => !elemAccepts e v

/-- positions reported by the diagnostics statements of an alternative: every non-wildcard element
    that rejects its argument -/
def diagPositions : List Elem → List V → Nat → List Nat
  | e :: es, v :: vs, i => (if elemReports e v then [i] else []) ++ diagPositions es vs (i + 1)
  | _, _, _ => []

/-- Rust semantics of the generated `match`: arms are tried in order -/
def evalArms : List Arm → List V → Bool → Bool × List Nat
  | [], _, _ => (false, [])
  | .success alt g :: rest, args, en =>
    if altAccepts alt args && evalG (altEnv alt args) (g.getD .tt) then (true, []) else evalArms rest args en
  | .diag alt :: rest, args, en =>
    if en then (false, diagPositions alt args 0) else evalArms rest args en
  | .catchAll :: _, _, _ => (false, [])

def evalIR (ir : IR) (args : List V) (enabled : Bool) : Bool × List Nat :=
  if ir.acceptAll then (true, []) else evalArms ir.arms args enabled

end Unimock.Matching
