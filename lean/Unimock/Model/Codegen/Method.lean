/-!
# Model of the code the `#[unimock]` attribute generates for one trait method

Mirrors `def_method_impl`, `def_mock_fn` (inputs tuple, `info()`, `debug_inputs`),
`InputsDestructuring`, `Receiver`, `SelfReference`, `SelfToDelegator` in
`unimock_macros/src/unimock/{mod,method}.rs`. The result is a structured IR (which expressions are
passed where, in which order); `render` prints it in the same fact format the harness extracts from
the real macro's output (`/verif/macroharness/src/ir.rs`).
-/
namespace Unimock.Codegen

/-- `typedRef` / `typedMut`: the longhand spellings `self: &Self` / `self: &mut Self`, which the macro classifies like an
    owned receiver (`syn::Receiver { reference: None, .. }`) -/
inductive Recv | ref | mutRef | owned | rc | arc | pinMut | typedRef | typedMut
  deriving Repr, DecidableEq, Inhabited

/-- classes of non-receiver parameters (all with element type `u32` so that values are comparable) -/
inductive PClass
  | owned          -- `u32`
  | ref            -- `&u32`
  | refRef         -- `&&u32`
  | mutRef         -- `&mut u32`
  | mutDyn         -- `&mut dyn core::fmt::Debug`: a `&mut` to a trait object (no lifetime spelled out: matched like any `&mut`)
  | mutStatic      -- `&'static mut u32`: a lifetime spelled on the `&mut` itself, none inside the pointee (not `Impossible`: only the pointee counts)
  | mutGenU        -- `&mut U`: a `&mut` whose pointee is the method's own type parameter (no lifetime in it: an ordinary `&mut`)
  | mutImpossible  -- `&mut Vec<&'static u32>`: a `&mut` whose pointee mentions a lifetime
  | slice          -- `&[u32]`
  | genT           -- `T`, the trait's type parameter
  | genU           -- `U`, the method's type parameter
  | implInto (k : Nat)   -- `impl Into<u32> + 'static`, the k-th impl-Trait parameter of the method (named `ImplTrait{k}` by the macro)
  deriving Repr, DecidableEq, Inhabited

structure Param where
  name : String
  cls : PClass
  deriving Repr, DecidableEq

inductive Unmock
  | none
  | path (p : String)                       -- `unmock_with=[p]`: called as `p(self, params…)`
  | listed (p : String) (args : List String) -- `unmock_with=[p(a, b)]`: called with the listed expressions
  deriving Repr, DecidableEq

inductive Api | modul (name : String) | flat (ident : String) | hidden
  deriving Repr, DecidableEq

structure MethodShape where
  traitName : String
  name : String
  recv : Recv
  params : List Param
  isAsync : Bool := false
  rpit : Bool := false            -- `-> impl Future<Output = u32>`
  hasDefault : Bool := false
  unmock : Unmock := .none
  api : Api := .modul "TMock"
  /-- the trait has a type parameter `T` -/
  traitGen : Bool := false
  /-- the method has a type parameter `U` -/
  methodGen : Bool := false
  deriving Repr

def isPolonius : Recv → Bool
  | .mutRef | .pinMut => true
  | _ => false

/-- `SelfReference` -/
def selfRef : Recv → String
  | .ref => "self"
  | .mutRef | .pinMut => "__self"
  | _ => "&self"

/-- what is passed as the receiver to answer functions -/
def answerSelf (r : Recv) : String := if isPolonius r then "__self" else "self"

def impossible : String := "::unimock::Impossible"

/-- `InputsSyntax::EvalParams` -/
def evalParam (p : Param) : String := if p.cls = .mutImpossible then impossible else p.name
/-- `InputsSyntax::EvalPatternMutAsWildcard` -/
def patNoMut (p : Param) : String := if p.cls = .mutImpossible then "_" else p.name
/-- `InputsSyntax::FnParams`, `FnPattern`, `EvalPatternAll` -/
def fnParam (p : Param) : String := p.name

def recvTy : Recv → String
  | .owned => "Self" | .rc => "Rc<Self>" | .arc => "Arc<Self>" | .pinMut => "Pin<&mutSelf>"
  | .ref => "&Self" | .mutRef => "&mutSelf" | .typedRef => "&Self" | .typedMut => "&mutSelf"

/-- `default_delegator_call`'s constructor of the delegator -/
def delegateCtor : Recv → String
  | .ref => "::unimock::private::as_ref(self)"
  | .mutRef => "::unimock::private::as_mut(__self)"
  | .pinMut => s!"<{recvTy .pinMut}as::unimock::private::DelegateToDefaultImpl>::to_delegator(::core::pin::Pin::new(__self))"
  | r => s!"<{recvTy r}as::unimock::private::DelegateToDefaultImpl>::to_delegator(self)"

/-- names of the impl-Trait type parameters the macro introduces, in parameter order -/
def implNames (ps : List Param) : List String :=
  ps.filterMap fun p => match p.cls with | .implInto k => some s!"ImplTrait{k}" | _ => none

/-- type parameters of the generic `MockFn` struct: the trait's, the method's, then the impl-Trait ones -/
def genericNames (s : MethodShape) : List String :=
  (if s.traitGen then ["T"] else []) ++ (if s.methodGen then ["U"] else []) ++ implNames s.params

def isTypeGeneric (s : MethodShape) : Bool := !(genericNames s).isEmpty

/-- the identifier the generic struct is named after -/
def apiIdent (s : MethodShape) : String :=
  match s.api with
  | .flat i => i
  | _ => s.name

/-- the type `MockFn` is implemented for -/
def mockFnPath (s : MethodShape) : String :=
  if isTypeGeneric s then s!"__Generic{apiIdent s}<{",".intercalate (genericNames s)}>"
  else match s.api with
  | .modul m => s!"{m}::{s.name}"
  | .flat i => i
  | .hidden => s!"UnimockHidden__{s.name}"

/-- the type named in `eval::<..>`: impl-Trait parameters are left to inference (`_`) -/
def evalMockFnPath (s : MethodShape) : String :=
  if isTypeGeneric s then
    let names := (if s.traitGen then ["T"] else []) ++ (if s.methodGen then ["U"] else []) ++ (implNames s.params).map fun _ => "_"
    s!"__Generic{apiIdent s}<{",".intercalate names}>"
  else mockFnPath s

def dotAwait (s : MethodShape) : Bool := s.isAsync || s.rpit

structure MethodIR where
  surrogate : Option String
  polonius : Bool
  evalSelf : String
  mockFn : String
  evalParams : List String
  /-- pattern of `let (__cont, <pat>) = polonius!(..)` -/
  rebind : Option (List String)
  /-- `_exit!((__cont, <args>))` -/
  exitArgs : Option (List String)
  /-- inputs pattern of the arm that leaves the polonius scope -/
  exitPat : Option (List String)
  /-- inputs pattern of the Answer / Unmock / CallDefaultImpl arms (direct form) -/
  armPat : List String
  answerSelf : String
  answerArgs : List String
  unmock : Option (String × List String × Bool)
  delegate : Option (String × List String × Bool)
  reportSelf : String
  asyncWrap : Bool
  isAsync : Bool
  trackCaller : Bool
  deriving Repr, DecidableEq

/-- the receiver expression handed to the registered real function: `self`, or — where `self` has been moved into the surrogate
    (`&mut self`, `Pin<&mut Self>`) — the surrogate, re-pinned for `Pin` -/
def unmockSelf : Recv → String
  | .mutRef => "__self"
  | .pinMut => "::core::pin::Pin::new(__self)"
  | _ => "self"

def genMethod (s : MethodShape) : MethodIR :=
  let pol := isPolonius s.recv
  { surrogate := match s.recv with
      | .mutRef => some "self"
      | .pinMut => some "::core::pin::Pin::into_inner(self)"
      | _ => none
    polonius := pol
    evalSelf := selfRef s.recv
    mockFn := evalMockFnPath s
    evalParams := s.params.map evalParam
    rebind := if pol then some (s.params.map fnParam) else none
    exitArgs := if pol then some (s.params.map fnParam) else none
    exitPat := if pol then some (s.params.map patNoMut) else none
    armPat := s.params.map patNoMut
    answerSelf := answerSelf s.recv
    answerArgs := s.params.map fnParam
    unmock :=
      match s.unmock with
        | .none => none
        | .path p => some (p, unmockSelf s.recv :: s.params.map fnParam, dotAwait s)
        -- in the listed form the user's `self` names the surrogate once `self` has been moved into it
        | .listed p args => some (p, args.map (fun a => if a = "self" then unmockSelf s.recv else a), dotAwait s)
    delegate := if s.hasDefault then some (delegateCtor s.recv, s.params.map fnParam, dotAwait s) else none
    reportSelf := selfRef s.recv
    asyncWrap := s.rpit
    isAsync := s.isAsync
    trackCaller := !s.isAsync }

/-! ## the forwarding impl on `DefaultImplDelegator` (required methods only) -/

def delegatorAccessor : Recv → String
  | .ref => "::unimock::private::as_ref(self)"
  | .mutRef => "::unimock::private::as_mut(self)"
  | .owned => "{<::unimock::Unimockas::unimock::private::DelegateToDefaultImpl>::from_delegator(self)}"
  | .rc => "{<Rc<::unimock::Unimock>as::unimock::private::DelegateToDefaultImpl>::from_delegator(self)}"
  | .arc => "{<Arc<::unimock::Unimock>as::unimock::private::DelegateToDefaultImpl>::from_delegator(self)}"
  | .pinMut => "{<Pin<&mut::unimock::Unimock>as::unimock::private::DelegateToDefaultImpl>::from_delegator(self)}"
  | .typedRef => "{<&::unimock::Unimockas::unimock::private::DelegateToDefaultImpl>::from_delegator(self)}"
  | .typedMut => "{<&mut::unimock::Unimockas::unimock::private::DelegateToDefaultImpl>::from_delegator(self)}"

structure DelegatorIR where
  accessor : String
  args : List String
  await : Bool
  deriving Repr, DecidableEq

def genDelegator (s : MethodShape) : DelegatorIR :=
  { accessor := delegatorAccessor s.recv, args := s.params.map fnParam, await := dotAwait s }

/-! ## `MockFn` impl: inputs tuple and `debug_inputs` -/

def inputType : PClass → String
  | .owned => "u32"
  | .ref => "&'__iu32"
  | .refRef => "&'__i&'__iu32"
  | .mutRef => "&'__imutu32"
  | .mutDyn => "&'__imutdyncore::fmt::Debug"
  | .mutStatic => "&'staticmutu32"
  | .mutGenU => "&'__imutU"
  | .mutImpossible => impossible
  | .slice => "&'__i[u32]"
  | .genT => "T"
  | .genU => "U"
  | .implInto k => s!"ImplTrait{k}"

/-- `try_debug_expr`: dereference down to the value, `&*` through `&mut`, slices are debugged as they are -/
def debugExpr (p : Param) : String :=
  match p.cls with
  | .owned => s!"{p.name}.unimock_try_debug()"
  | .ref => s!"(*{p.name}).unimock_try_debug()"
  | .refRef => s!"(**{p.name}).unimock_try_debug()"
  | .mutRef => s!"(&*{p.name}).unimock_try_debug()"
  | .mutDyn => s!"(&*{p.name}).unimock_try_debug()"
  | .mutStatic => s!"(&*{p.name}).unimock_try_debug()"
  | .mutGenU => s!"(&*{p.name}).unimock_try_debug()"
  | .mutImpossible => s!"(&*{p.name}).unimock_try_debug()"
  | .slice => s!"{p.name}.unimock_try_debug()"
  | .genT | .genU | .implInto _ => s!"{p.name}.unimock_try_debug()"

def tupled (xs : List String) : String :=
  match xs with
  | [x] => x
  | xs => "(" ++ ",".intercalate xs ++ ")"

structure MockFnIR where
  path : String
  inputs : List String
  traitLit : String
  methodLit : String
  defaultImpl : Bool
  debugPat : List String
  debugExprs : List String
  /-- parameter types of `type AnswerFn = dyn (for<'__u> Fn(<these>) -> Ret) + Send + Sync`: the receiver, then the parameters -/
  answerParams : List String
  /-- the `for<'__u>` binder is present iff the receiver is passed by reference -/
  answerHrtb : Bool
  deriving Repr, DecidableEq

/-- the parameter as the answer function receives it (the declared type; `__i`-lifetimes are for `Inputs` only) -/
def answerParamType : PClass → String
  | .owned => "u32"
  | .ref => "&u32"
  | .refRef => "&&u32"
  | .mutRef => "&mutu32"
  | .mutDyn => "&mutdyncore::fmt::Debug"
  | .mutStatic => "&'staticmutu32"
  | .mutGenU => "&mutU"
  | .mutImpossible => "&mutVec<&'staticu32>"
  | .slice => "&[u32]"
  | .genT => "T"
  | .genU => "U"
  | .implInto k => s!"ImplTrait{k}"

/-- the receiver as the answer function receives it -/
def answerRecvType : Recv → String
  | .ref | .typedRef => "&'__u::unimock::Unimock"
  | .mutRef | .pinMut | .typedMut => "&'__umut::unimock::Unimock"
  | .owned => "::unimock::Unimock"
  | .rc => "Rc<::unimock::Unimock>"
  | .arc => "Arc<::unimock::Unimock>"

def answerByRef : Recv → Bool
  | .owned | .rc | .arc => false
  | _ => true

def genMockFn (s : MethodShape) : MockFnIR :=
  { path := mockFnPath s, inputs := s.params.map (inputType ·.cls), traitLit := s.traitName, methodLit := s.name,
    defaultImpl := s.hasDefault, debugPat := s.params.map fnParam, debugExprs := s.params.map debugExpr,
    answerParams := answerRecvType s.recv :: s.params.map (answerParamType ·.cls), answerHrtb := answerByRef s.recv }

/-! ## rendering (same fact lines as `/verif/macroharness/src/ir.rs`) -/

def b2s (b : Bool) : String := if b then "1" else "0"

def renderMethod (s : MethodShape) : List String :=
  let ir := genMethod s
  let hdr := s!" fn {s.name} target=unimock asyncwrap={b2s ir.asyncWrap} async={b2s ir.isAsync} track_caller={b2s ir.trackCaller}"
  let evalLine := s!"  eval mockfn={ir.mockFn} self={ir.evalSelf} params={tupled ir.evalParams}"
  let ans := s!"  call answer self={ir.answerSelf} args={",".intercalate ir.answerArgs}"
  let del (pat : String) := match ir.delegate with
    | some (c, a, w) => [s!"  arm CallDefaultImpl pat={pat}", s!"  call delegate ctor={c} args={",".intercalate a} await={b2s w}"]
    | none => []
  if ir.polonius then
    [hdr] ++ (match ir.surrogate with | some e => [s!"  surrogate {e}"] | none => []) ++
    [s!"  rebind (__cont,{tupled (ir.rebind.getD [])})", "  polonius self=__self", evalLine, "  arm return pat=",
     "  polonius-return output", s!"  arm any pat=__cont,{tupled (ir.exitPat.getD [])}",
     s!"  exit (__cont,{tupled (ir.exitArgs.getD [])})", "  arm Answer pat=", ans] ++ del "" ++
    (match ir.unmock with
      | some (p, a, w) => ["  arm Unmock pat=", s!"  call unmock path={p} args={",".intercalate a} await={b2s w}"]
      | none => []) ++
    ["  arm any pat=", s!"  call report recv=cont self={ir.reportSelf}"]
  else
    [hdr, evalLine, "  arm return pat=", s!"  arm Answer pat={tupled ir.armPat}", ans] ++
    (match ir.unmock with
      | some (p, a, w) => [s!"  arm Unmock pat={tupled ir.armPat}", s!"  call unmock path={p} args={",".intercalate a} await={b2s w}"]
      | none => []) ++ del (tupled ir.armPat) ++
    ["  arm any pat=cont,_", s!"  call report recv=cont self={ir.reportSelf}"]

def renderDelegator (s : MethodShape) : List String :=
  let d := genDelegator s
  [s!" fn {s.name} target=delegator asyncwrap={b2s s.rpit} async={b2s s.isAsync} track_caller={b2s (!s.isAsync)}",
   s!"  call unimock accessor={d.accessor} args={",".intercalate d.args} await={b2s d.await}"]

def renderMockFn (s : MethodShape) : List String :=
  let m := genMockFn s
  [s!"mockfn {m.path} inputs={tupled m.inputs} answer=dyn({if m.answerHrtb then "for<'__u>" else ""}Fn({",".intercalate m.answerParams})->u32)+Send+Sync path=\"{m.traitLit}\",\"{m.methodLit}\" default_impl={b2s m.defaultImpl}"] ++
  (if s.params.isEmpty then [] else [s!"  debug pat={tupled m.debugPat} exprs={",".intercalate m.debugExprs}"])

end Unimock.Codegen
