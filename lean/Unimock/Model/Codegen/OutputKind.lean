import Unimock.Model.Output
/-!
# Which output kind the attribute assigns to a return type (`unimock_macros/src/unimock/output.rs`)

`determine` models `determine_output_structure` for return types built from named types, references,
generic paths (`Option<..>`, `Result<..>`, `Vec<..>`, `Poll<..>`, any other generic path) and tuples:
it yields the `OutputKind` marker and the kind-annotated inner type exactly as the macro prints them in
`type OutputKind = …`. `toKind` reads that result as a kind of the run-time model (`Model/Output`),
when the run-time has an implementation for it.
-/
namespace Unimock.Codegen.OutKind
open Unimock.Output (Kind KindList Val ValList)

/-- a lifetime as the macro classifies it against the method signature -/
inductive Lt
  | elided
  | static
  | self_        -- the receiver's lifetime (`find_param_lifetime` = 0)
  | param        -- the lifetime of another parameter
  | undeclared   -- named, but not found among the parameters
  deriving Repr, DecidableEq

/-- generic type constructors the run-time knows, and all others -/
inductive Ctor
  | option | result | vec | poll
  | other (name : String)
  deriving Repr, DecidableEq

mutual
inductive Ty
  | named (n : String)
  | ref (lt : Lt) (isMut : Bool) (t : Ty)
  | app (c : Ctor) (args : TyList)
  | tuple (ts : TyList)
inductive TyList
  | nil
  | cons (t : Ty) (ts : TyList)
end

/-- the `output::*` marker types -/
inductive KName
  | owning | lending | mutLending | staticRef | shallow | deep
  deriving Repr, DecidableEq

mutual
/-- a type in which some generic arguments have been wrapped into `output::K<..>` -/
inductive KTy
  | plain (t : Ty)
  | wrap (k : KName) (inner : KTy)
  | app (c : Ctor) (args : KTyList)
  | tuple (ts : KTyList)
inductive KTyList
  | nil
  | cons (t : KTy) (ts : KTyList)
end

/-! ## `ReturnTypeAnalyzer::analyze_borrows` -/

structure BorrowInfo where
  nonstatic : Bool := false
  elidedRef : Bool := false
  selfRef : Bool := false
  input : Bool := false
  deriving Repr, DecidableEq

def BorrowInfo.join (a b : BorrowInfo) : BorrowInfo :=
  ⟨a.nonstatic || b.nonstatic, a.elidedRef || b.elidedRef, a.selfRef || b.selfRef, a.input || b.input⟩

def analyzeLt : Lt → BorrowInfo
  | .elided => { nonstatic := true, elidedRef := true }
  | .static => {}
  | .self_ => { nonstatic := true, selfRef := true }
  | .param => { nonstatic := true, input := true }
  | .undeclared => { nonstatic := true }

mutual
def analyze : Ty → BorrowInfo
  | .named _ => {}
  | .ref lt _ t => (analyzeLt lt).join (analyze t)
  | .app _ args => analyzeList args
  | .tuple ts => analyzeList ts
def analyzeList : TyList → BorrowInfo
  | .nil => {}
  | .cons t ts => (analyze t).join (analyzeList ts)
end

/-! ## `rename_lifetimes(.., 'static)` -/

mutual
def staticize : Ty → Ty
  | .named n => .named n
  | .ref _ m t => .ref .static m (staticize t)
  | .app c args => .app c (staticizeList args)
  | .tuple ts => .tuple (staticizeList ts)
def staticizeList : TyList → TyList
  | .nil => .nil
  | .cons t ts => .cons (staticize t) (staticizeList ts)
end

/-- `AssociatedInnerType::new_static` -/
def newStatic (t : Ty) (bi : BorrowInfo) : Ty := if bi.nonstatic then staticize t else t

/-! ## `make_generic_kind` / `wrap_output_kind` -/

def KName.isNested : KName → Bool
  | .shallow => true
  | .deep => true
  | _ => false

mutual
def mgk : Ty → KName × KTy
  | .ref _ isMut e => (if isMut then .mutLending else .lending, .plain e)
  | .app c args =>
    let r := mgkArgs args .owning
    (r.1, .app c r.2)
  | .named n => (.owning, .plain (.named n))
  | .tuple ts => (.owning, .plain (.tuple ts))
/-- the loop over the generic arguments: `kind` is reset to `Shallow` at every type argument and raised
    to `Deep` when that argument is itself `Shallow`/`Deep` (and then wrapped) -/
def mgkArgs : TyList → KName → KName × KTyList
  | .nil, kind => (kind, .nil)
  | .cons a rest, _ =>
    let r := mgk a
    let here : KName × KTy :=
      if r.1.isNested then (.deep, .wrap r.1 r.2) else (.shallow, .plain (staticize a))
    let tail := mgkArgs rest here.1
    (tail.1, .cons here.2 tail.2)
end

def wrapElems : TyList → KTyList
  | .nil => .nil
  | .cons t ts => .cons (let r := mgk t; .wrap r.1 r.2) (wrapElems ts)

/-! ## `determine_output_structure` -/

/-- `determine_reference_ownership` -/
def refOwnership (lt : Lt) (isMut : Bool) : KName :=
  match lt with
  | .static => .staticRef
  | .param => .staticRef                        -- `ParamReference` is printed as `StaticRef`
  | .self_ => if isMut then .mutLending else .lending
  | .undeclared => .lending
  | .elided => if isMut then .mutLending else .lending

/-- the `OutputKind` marker and the kind-annotated inner type -/
def determine : Ty → KName × KTy
  | .ref lt isMut e => (refOwnership lt isMut, .plain (newStatic e (analyze e)))
  | t =>
    let bi := analyze t
    let shallow := !bi.input && (bi.elidedRef || bi.selfRef)
    if shallow then
      match t with
      | .tuple ts => (.deep, .tuple (wrapElems ts))
      | t => mgk t
    else (.owning, .plain (newStatic t bi))

/-! ## rendering, as the real macro's token stream prints with white space removed -/

def Ctor.name : Ctor → String
  | .option => "Option" | .result => "Result" | .vec => "Vec" | .poll => "Poll"
  | .other n => n

def Lt.render : Lt → String
  | .elided => "" | .static => "'static" | .self_ => "'s" | .param => "'p" | .undeclared => "'u"

def KName.render : KName → String
  | .owning => "Owning" | .lending => "Lending" | .mutLending => "MutLending" | .staticRef => "StaticRef"
  | .shallow => "Shallow" | .deep => "Deep"

mutual
def Ty.render : Ty → String
  | .named n => n
  | .ref lt m t => "&" ++ lt.render ++ (if m then "mut" else "") ++ t.render
  | .app c args => c.name ++ "<" ++ TyList.render args ++ ">"
  | .tuple ts => "(" ++ TyList.render ts ++ ")"        -- the user's own tokens: no trailing comma
def TyList.render : TyList → String
  | .nil => ""
  | .cons t .nil => t.render
  | .cons t ts => t.render ++ "," ++ TyList.render ts
end

mutual
def KTy.render : KTy → String
  | .plain t => t.render
  | .wrap k i => "::unimock::output::" ++ k.render ++ "<" ++ i.render ++ ">"
  | .app c args => c.name ++ "<" ++ KTyList.render args ++ ">"
  | .tuple ts => "(" ++ KTyList.renderTup ts ++ ")"
def KTyList.render : KTyList → String
  | .nil => ""
  | .cons t .nil => t.render
  | .cons t ts => t.render ++ "," ++ KTyList.render ts
def KTyList.renderTup : KTyList → String
  | .nil => ""
  | .cons t ts => t.render ++ "," ++ KTyList.renderTup ts
end

def renderDetermined (r : KName × KTy) : String :=
  "::unimock::output::" ++ r.1.render ++ "<" ++ r.2.render ++ ">"

/-! ## reading the macro's result as a kind of the run-time model -/

def Ty.isSharedRef : Ty → Bool
  | .ref _ false _ => true
  | _ => false

def Ty.isRef : Ty → Bool
  | .ref _ _ _ => true
  | _ => false

mutual
/-- `none`: the run-time has no `Kind`/`IntoReturn` implementation for this combination -/
def toKind : KName → KTy → Option Kind
  | .owning, _ => some .owning
  | .lending, _ => some .lending
  | .staticRef, _ => some .staticRef
  | .mutLending, _ => none                       -- `&mut` returns are lent through `make_mut` (C13), not through `returns`
  | .shallow, .app .option (.cons (.plain t) .nil) => if t.isSharedRef then some .shallowOpt else none
  | .shallow, .app .result (.cons (.plain t) (.cons (.plain _) .nil)) =>
    if t.isSharedRef then some .shallowRes else none   -- `E` is any owned type (also a `'static` reference)
  | .shallow, .app .vec (.cons (.plain t) .nil) => if t.isSharedRef then some .shallowVec else none
  | .shallow, _ => none
  | .deep, .app .option (.cons (.wrap k i) .nil) => (toKind k i).map .deepOpt
  | .deep, .app .vec (.cons (.wrap k i) .nil) => (toKind k i).map .deepVec
  | .deep, .app .poll (.cons (.wrap k i) .nil) => (toKind k i).map .deepPoll
  | .deep, .app .result (.cons (.wrap k1 i1) (.cons (.wrap k2 i2) .nil)) =>
    match toKind k1 i1, toKind k2 i2 with
    | some a, some b => some (.deepRes a b)
    | _, _ => none
  | .deep, .tuple ts => (toKindList ts).map .deepTup
  | .deep, _ => none
def toKindList : KTyList → Option KindList
  | .nil => some .nil
  | .cons (.wrap k i) rest =>
    match toKind k i, toKindList rest with
    | some a, some r => some (.cons a r)
    | _, _ => none
  | .cons _ _ => none
end

/-! ## values of a return type -/

mutual
/-- `v` is (the shape of) a value of type `t`; references are transparent, unknown generic paths are leaves -/
def hasType : Val → Ty → Bool
  | v, .ref _ _ t => hasType v t
  | .leaf _, .named _ => true
  | .leaf _, .app (.other _) _ => true
  | .none, .app .option (.cons _ .nil) => true
  | .some v, .app .option (.cons t .nil) => hasType v t
  | .ok v, .app .result (.cons t (.cons _ .nil)) => hasType v t
  | .err v, .app .result (.cons _ (.cons e .nil)) => hasType v e
  | .vec vs, .app .vec (.cons t .nil) => hasTypeAll vs t
  | .pending, .app .poll (.cons _ .nil) => true
  | .ready v, .app .poll (.cons t .nil) => hasType v t
  | .tup vs, .tuple ts => hasTypeZip vs ts
  | _, _ => false
def hasTypeAll : ValList → Ty → Bool
  | .nil, _ => true
  | .cons v vs, t => hasType v t && hasTypeAll vs t
def hasTypeZip : ValList → TyList → Bool
  | .nil, .nil => true
  | .cons v vs, .cons t ts => hasType v t && hasTypeZip vs ts
  | _, _ => false
end

end Unimock.Codegen.OutKind
