/-!
# Runtime model of unimock: types, builder, responder lookup, evaluation, verification

Mirrors `src/build.rs` (dyn_builder), `src/call_pattern.rs`, `src/counter.rs`, `src/fn_mocker.rs`,
`src/eval.rs`, `src/state.rs`, the tail of `src/teardown.rs`, and the continuation arms of the
generated method bodies (`unimock_macros/src/unimock/mod.rs`).

Conventions: `α` is the type of a call's inputs, `ρ` the type of response payloads. Interior
mutability becomes returned state. No imports: this file is linked into the driver executable.
-/
namespace Unimock

inductive Mode | anyOrder | inOrder deriving DecidableEq, Repr, Inhabited
inductive Exactness | exact | atLeast | atLeastPlusOne deriving DecidableEq, Repr, Inhabited
inductive Fallback | error | unmock deriving DecidableEq, Repr, Inhabited

/-- `DynResponder`. `ret v once`: `once = true` iff built through `into_return_once`
    (`Owned` wrapping a `MutexIsh<Option<T>>`, a single-use slot). -/
inductive Resp (ρ : Type)
  | ret (v : ρ) (once : Bool)
  | answer (f : Nat)
  | applyDefaultImpl
  | unmock
  | panic (msg : String)
  deriving Repr, DecidableEq

/-- `DynCallOrderResponder` plus the state of its single-use slot. -/
structure Responder (ρ : Type) where
  start : Nat
  resp : Resp ρ
  taken : Bool := false
  deriving Repr, DecidableEq

structure PatDebug where
  src : String
  file : String
  line : Nat
  deriving Repr, DecidableEq

/-- result of running a user matcher on inputs: `none` = the matcher itself panicked (user code) -/
abbrev Matcher (α : Type) := α → Option Bool

structure Pattern (α ρ : Type) where
  matcher : Option (Matcher α)
  dbg : Option PatDebug
  responders : List (Responder ρ)
  lo : Nat
  hi : Nat
  min : Nat
  ex : Exactness
  count : Nat

/-- `MockFnInfo` + what the macro knows statically about the method (`unmockFn`: an `unmock_with`
    function is registered and the generated body has an Unmock arm; `defaultArm`: the generated
    body has a CallDefaultImpl arm). -/
structure MethodInfo where
  id : Nat
  trait : String
  name : String
  hasDefaultImpl : Bool
  partialByDefault : Bool := false
  unmockFn : Bool := false
  deriving Repr, DecidableEq

structure FnMocker (α ρ : Type) where
  info : MethodInfo
  mode : Mode
  pats : List (Pattern α ρ)

inductive MockError
  | noMockImplementation (m : MethodInfo)
  | noMatcherFunction (m : MethodInfo) (pat : Nat)
  | noMatchingCallPatterns (m : MethodInfo)
  | noOutputAvailable (m : MethodInfo) (pat : Nat)
  | callOrderNotMatched (m : MethodInfo) (order : Nat) (expected : Option (MethodInfo × Nat))
  | inputsNotMatchedInCallOrder (m : MethodInfo) (order : Nat) (pat : Nat)
  | cannotReturnValueMoreThanOnce (m : MethodInfo) (pat : Nat)
  | cannotUnmock (m : MethodInfo)
  | noDefaultImpl (m : MethodInfo)
  | notAnswered (m : MethodInfo)
  | explicitPanic (m : MethodInfo) (pat : Nat) (msg : String)
  | failedVerification (m : MethodInfo) (pat : Nat) (atLeast : Bool) (bound actual : Nat)
  | mockNeverCalled (m : MethodInfo)
  deriving Repr, DecidableEq

structure Shared (α ρ : Type) where
  fallback : Fallback
  mockers : List (FnMocker α ρ)
  nextOrdered : Nat
  reasons : List MockError

/-- `Eval` / `MockResult` as seen by the generated method body.
    `userPanic`: user code (a matcher) unwound through `eval`. -/
inductive EvalOutcome (ρ : Type)
  | ret (v : ρ)
  | contAnswer (f : Nat)
  | contUnmock
  | contDefault
  | err (e : MockError)
  | userPanic
  deriving Repr, DecidableEq

/-! ### builder (src/build.rs) -/

structure Builder (α ρ : Type) where
  mode : Mode
  matcher : Option (Matcher α)
  dbg : Option PatDebug
  responders : List (Responder ρ) := []
  min : Nat := 0
  ex : Exactness := .atLeast
  idx : Nat := 0           -- current_response_index
  outputError : Bool := false

def Builder.pushResponder {α ρ} (b : Builder α ρ) (r : Resp ρ) : Builder α ρ :=
  { b with responders := b.responders ++ [{ start := b.idx, resp := r }] }

def Builder.quantify {α ρ} (b : Builder α ρ) (n : Nat) (e : Exactness) : Builder α ρ :=
  { b with min := b.min + n, ex := e, idx := b.idx + n }

def Builder.then_ {α ρ} (b : Builder α ρ) : Builder α ρ :=
  { b with ex := .atLeastPlusOne }

/-- user-level quantifier of one segment -/
inductive Quant | once | nTimes (n : Nat) | atLeastTimes (n : Nat) | unquantified
  deriving Repr, DecidableEq

def Quant.times : Quant → Nat
  | .once => 1 | .nTimes n => n | .atLeastTimes n => n | .unquantified => 0

/-- One segment: a response, how it was quantified, and whether it came through
    `DefineResponse::returns` (the `QuantifyReturnValue` state: `once()` and the unquantified form
    store the value through `into_return_once`, i.e. single-use). `topLevel`: the chain is used as a
    `Clause` itself (not inside `stub`), so the `Clause` impls of `Quantify`/`QuantifyReturnValue` run. -/
structure Segment (ρ : Type) where
  resp : Resp ρ
  quant : Quant
  viaQRV : Bool := false
  deriving Repr

/-- the responder actually stored for a segment -/
def Segment.stored {ρ} (s : Segment ρ) : Resp ρ :=
  match s.resp with
  | .ret v _ =>
    if s.viaQRV then
      match s.quant with
      | .once | .unquantified => .ret v true
      | _ => .ret v false
    else .ret v false
  | r => r

/-- an unquantified last segment is implicitly `once` when the chain itself is used as a `Clause`
    and either came through `QuantifyReturnValue` (`Clause for QuantifyReturnValue` calls `once()`)
    or the pattern is ordered (`Clause for Quantify` adds `quantify(1, Exact)`) -/
def implicitOnce (topLevel : Bool) (mode : Mode) (viaQRV : Bool) : Bool :=
  topLevel && (viaQRV || mode == .inOrder)

def Builder.applyQuant {α ρ} (b : Builder α ρ) (topLevel : Bool) (s : Segment ρ) : Builder α ρ :=
  match s.quant with
  | .once => b.quantify 1 .exact
  | .nTimes n => b.quantify n .exact
  | .atLeastTimes n => b.quantify n .atLeast
  | .unquantified => if implicitOnce topLevel b.mode s.viaQRV then b.quantify 1 .exact else b

def Builder.segment {α ρ} (b : Builder α ρ) (topLevel : Bool) (s : Segment ρ) (isLast : Bool) : Builder α ρ :=
  let b := (b.pushResponder s.stored).applyQuant topLevel s
  if isLast then b else b.then_

def buildChain {α ρ} (b : Builder α ρ) (topLevel : Bool) : List (Segment ρ) → Builder α ρ
  | [] => b
  | [s] => b.segment topLevel s true
  | s :: t => buildChain (b.segment topLevel s false) topLevel t

/-! ### responder lookup (src/call_pattern.rs + std `binary_search_by`, rustc 1.95) -/

/-- The loop of `core::slice::binary_search_by` as shipped with the pinned toolchain:
    `while size > 1 { half = size/2; mid = base+half; base = if cmp(mid) == Greater {base} else {mid}; size -= half }`
    (structural recursion on a fuel argument; `size` iterations always suffice, see `bsLoop_inv`) -/
def bsLoop (keys : Array Nat) (k : Nat) : Nat → Nat → Nat → Nat
  | 0, _, base => base
  | fuel+1, size, base =>
    if size > 1 then
      let half := size / 2
      let mid := base + half
      bsLoop keys k fuel (size - half) (if keys[mid]! > k then base else mid)
    else base

/-- `Ok i` ↦ `(true, i)`, `Err i` ↦ `(false, i)` -/
def binarySearch (keys : Array Nat) (k : Nat) : Bool × Nat :=
  if keys.size = 0 then (false, 0) else
  let base := bsLoop keys k keys.size keys.size 0
  if keys[base]! = k then (true, base)
  else (false, base + (if keys[base]! < k then 1 else 0))

/-- `find_responder_by_call_index` on the array of start indexes -/
def findKey (keys : Array Nat) (k : Nat) : Option Nat :=
  if keys.size = 0 then none else
  match binarySearch keys k with
  | (true, i) => some i
  | (false, i) => some (i - 1)

def findResponderIdx {ρ} (rs : List (Responder ρ)) (callIndex : Nat) : Option Nat :=
  findKey (rs.map (·.start)).toArray callIndex

/-! ### evaluation (src/eval.rs, src/fn_mocker.rs) -/

def Shared.find {α ρ} (s : Shared α ρ) (id : Nat) : Option (FnMocker α ρ) :=
  s.mockers.find? (·.info.id = id)

/-- outcome of trying one pattern (`CallPattern::match_inputs`) -/
inductive Try | accept | noMatcher | userPanic deriving DecidableEq, Repr

/-- `some t` = the scan stops here with `t`; `none` = the pattern rejects the inputs -/
def tryPat {α ρ} (p : Pattern α ρ) (a : α) : Option Try :=
  match p.matcher with
  | none => some .noMatcher
  | some f =>
    match f a with
    | none => some .userPanic
    | some true => some .accept
    | some false => none

/-- `iter().enumerate().filter_map(..).next()` of `match_call_pattern` (InAnyOrder) -/
def scan {α ρ} : List (Pattern α ρ) → α → Nat → Option (Nat × Try)
  | [], _, _ => none
  | p :: ps, a, i =>
    match tryPat p a with
    | some b => some (i, b)
    | none => scan ps a (i+1)

/-- `FnMocker::find_call_pattern_for_call_order` -/
def findForOrder {α ρ} (ps : List (Pattern α ρ)) (idx : Nat) : Option Nat :=
  ps.findIdx? (fun p => p.lo ≤ idx ∧ idx < p.hi)

/-- `SharedState::find_ordered_expected_call_pattern_debug` -/
def Shared.findOrderedExpected {α ρ} (s : Shared α ρ) (idx : Nat) : Option (MethodInfo × Nat) :=
  s.mockers.findSome? fun m =>
    if m.mode = .inOrder then (findForOrder m.pats idx).map (fun i => (m.info, i)) else none

/-- replace pattern `i` of mocker `id` -/
def Shared.setPat {α ρ} (s : Shared α ρ) (id i : Nat) (p : Pattern α ρ) : Shared α ρ :=
  { s with mockers := s.mockers.map fun m =>
      if m.info.id = id then { m with pats := m.pats.set i p } else m }

/-- what the selected responder yields; returns the updated responder list
    (`next_responder` after the counter bump, then the `match` in `eval`) -/
def respond {ρ} (m : MethodInfo) (pi : Nat) (rs : List (Responder ρ)) (callIndex : Nat) :
    List (Responder ρ) × EvalOutcome ρ :=
  match findResponderIdx rs callIndex with
  | none => (rs, .err (.noOutputAvailable m pi))
  | some ri =>
    match rs[ri]? with
    | none => (rs, .err (.noOutputAvailable m pi))      -- unreachable (theorem `findResponderIdx_lt`)
    | some r =>
      match r.resp with
      | .ret v once =>
        if once then
          if r.taken then (rs, .err (.cannotReturnValueMoreThanOnce m pi))
          else (rs.set ri { r with taken := true }, .ret v)
        else (rs, .ret v)
      | .answer f => (rs, .contAnswer f)
      | .applyDefaultImpl => (rs, .contDefault)
      | .unmock => (rs, .contUnmock)
      | .panic msg => (rs, .err (.explicitPanic m pi msg))

/-- `eval::eval` up to (not including) `handle_error`. -/
def evalCall {α ρ} (s : Shared α ρ) (m : MethodInfo) (a : α) : Shared α ρ × EvalOutcome ρ :=
  match s.find m.id with
  | none =>
    if m.hasDefaultImpl then (s, .contDefault)
    else if m.partialByDefault then (s, .contUnmock)
    else match s.fallback with
      | .error => (s, .err (.noMockImplementation m))
      | .unmock => (s, .contUnmock)
  | some fm =>
    match fm.mode with
    | .anyOrder =>
      match scan fm.pats a 0 with
      | none =>
        match s.fallback with
        | .error => (s, .err (.noMatchingCallPatterns m))
        | .unmock => (s, .contUnmock)
      | some (pi, .noMatcher) => (s, .err (.noMatcherFunction m pi))
      | some (_, .userPanic) => (s, .userPanic)
      | some (pi, .accept) =>
        match fm.pats[pi]? with
        | none => (s, .err (.noMatchingCallPatterns m))   -- unreachable (theorem `scan_lt`)
        | some p =>
          let (rs, out) := respond m pi p.responders p.count
          (s.setPat m.id pi { p with count := p.count + 1, responders := rs }, out)
    | .inOrder =>
      let idx := s.nextOrdered
      let s := { s with nextOrdered := idx + 1 }
      match findForOrder fm.pats idx with
      | none => (s, .err (.callOrderNotMatched m idx (s.findOrderedExpected idx)))
      | some pi =>
        match fm.pats[pi]? with
        | none => (s, .err (.callOrderNotMatched m idx none))  -- unreachable
        | some p =>
          match tryPat p a with
          | some .noMatcher => (s, .err (.noMatcherFunction m pi))
          | some .userPanic => (s, .userPanic)
          | none => (s, .err (.inputsNotMatchedInCallOrder m idx pi))
          | some .accept =>
            let (rs, out) := respond m pi p.responders p.count
            (s.setPat m.id pi { p with count := p.count + 1, responders := rs }, out)

/-- `handle_error`/`induce_panic`: record mock errors in the shared log. -/
def Shared.induce {α ρ} (s : Shared α ρ) (e : MockError) : Shared α ρ :=
  { s with reasons := s.reasons ++ [e] }

def call {α ρ} (s : Shared α ρ) (m : MethodInfo) (a : α) : Shared α ρ × EvalOutcome ρ :=
  match evalCall s m a with
  | (s', .err e) => (s'.induce e, .err e)
  | r => r

/-! ### verification (src/counter.rs, src/fn_mocker.rs, src/teardown.rs tail) -/

def lowerBound (min : Nat) : Exactness → Nat
  | .exact | .atLeast => min
  | .atLeastPlusOne => min + 1

def countOk {α ρ} (p : Pattern α ρ) : Bool :=
  match p.ex with
  | .exact => p.count == lowerBound p.min p.ex
  | _ => decide (lowerBound p.min p.ex ≤ p.count)

def verifyPat {α ρ} (m : MethodInfo) (pi : Nat) (p : Pattern α ρ) : List MockError :=
  if countOk p then [] else
    [.failedVerification m pi (p.ex != .exact) (lowerBound p.min p.ex) p.count]

def verifyMocker {α ρ} (fm : FnMocker α ρ) : List MockError :=
  (fm.pats.zipIdx.flatMap fun (p, i) => verifyPat fm.info i p) ++
  (if (fm.pats.map (·.count)).sum = 0 then [.mockNeverCalled fm.info] else [])

def verifyAll {α ρ} (s : Shared α ρ) : List MockError :=
  s.mockers.flatMap verifyMocker

end Unimock
