import Unimock.Model.Core
/-!
# Vocabulary for the source-derived skeleton of `Eval::match_call_pattern` (`src/eval.rs`),
`SharedState::bump_ordered_call_index` (`src/state.rs`) and
`FnMocker::find_call_pattern_for_call_order` (`src/fn_mocker.rs`)

`tools/translate_scan.py` reads those three functions from `/repo` and writes
`Generated/ScanSkel.lean` in this vocabulary; the interpreters below give the vocabulary its
meaning (Rust iterator-adaptor semantics over lists; a statement list run top to bottom with `?` /
early `return`), and `Props/C01.lean` / `Props/C04.lean` prove the interpreted skeletons equal to
the hand-written model's `scan` and ordered branch.
-/
namespace Unimock.ScanSkel

/-- result of `match_inputs(call_pattern, ..)`: `Ok(false)`, `Ok(true)`, `Err(_)` -/
inductive R | f | t | e
  /-- the user's matcher panicked: the scan is abandoned at this element (unwinding) -/
  | p
  deriving DecidableEq, Repr

/-- what an arm of the `filter_map` closure yields -/
inductive Arm
  | none_            -- `None`: the element is dropped
  | someOk           -- `Some(Ok((PatIndex(pat_index), call_pattern)))`
  | someErr          -- `Some(Err((PatIndex(pat_index), err)))`
  | unknown
  /-- not an arm: the call of `match_inputs` unwound -/
  | unwind
  deriving DecidableEq, Repr

/-- iterator adaptors of the `InAnyOrder` chain, in source order -/
inductive Adaptor
  | iter | enumerate | filterMap | next | transpose | mapErr
  /-- `for (i, p) in ….iter().enumerate() { match … { … => continue, … => return … } } Ok(None)` -/
  | forReturn
  | find | map | position | index
  | rev | last | skip | other
  deriving DecidableEq, Repr

structure AnySkel where
  /-- the receiver is `fn_mocker.call_patterns` -/
  overCallPatterns : Bool
  adaptors : List Adaptor
  /-- `match_inputs(call_pattern, None)`: no diagnostics collected while scanning -/
  reporterNone : Bool
  onFalse : Arm
  onTrue : Arm
  onErr : Arm
  /-- `map_err` sends the error through `map_pattern_error` with the failing pattern's own index -/
  errMapsOwnIndex : Bool
  deriving DecidableEq, Repr

def AnySkel.arm (s : AnySkel) : R → Arm
  | .f => s.onFalse
  | .t => s.onTrue
  | .e => s.onErr
  | .p => .unwind

/-- outcome of the unordered selection: nothing / pattern `i` selected / pattern error at `i` -/
inductive Sel | nothing | selected (i : Nat) | patErr (i : Nat) | unwound (i : Nat) | ill
  deriving DecidableEq, Repr

/-- `iter().enumerate().filter_map(closure)` over the per-pattern results, numbering from `k` -/
def filterMapped (s : AnySkel) : List R → Nat → List (Nat × Arm)
  | [], _ => []
  | r :: rs, k =>
    match s.arm r with
    | .none_ => filterMapped s rs (k + 1)
    | .unwind => [(k, .unwind)]
    | a => (k, a) :: filterMapped s rs (k + 1)

/-- `.next().transpose().map_err(..)` on that sequence -/
def takeNext : List (Nat × Arm) → Sel
  | [] => .nothing
  | (i, .someOk) :: _ => .selected i
  | (i, .someErr) :: _ => .patErr i
  | (i, .unwind) :: _ => .unwound i
  | _ => .ill

/-- meaning of the whole chain — or of the equivalent `for` loop with `continue` / early `return`: the first element whose
    arm is not `None` / `continue` decides. Anything but these two adaptor sequences is `ill`. Whether the scan passes a
    mismatch reporter is recorded (`reporterNone`) but does not enter the meaning: `C06_diagnostics_do_not_decide`. -/
def AnySkel.run (s : AnySkel) (rs : List R) : Sel :=
  if s.overCallPatterns ∧ s.errMapsOwnIndex ∧
     (s.adaptors = [.iter, .enumerate, .filterMap, .next, .transpose, .mapErr] ∨
      s.adaptors = [.iter, .enumerate, .forReturn])
  then takeNext (filterMapped s rs 0) else .ill

/-! ## ordered branch: a statement list -/

inductive OStep
  /-- `let ordered_call_index = self.shared_state.bump_ordered_call_index();` -/
  | bump
  /-- `let (pat_index, pattern) = fn_mocker.find_call_pattern_for_call_order(ordered_call_index)
      .ok_or_else(|| MockError::CallOrderNotMatchedForMockFn { .. })?;` -/
  | findOrErrCallOrder
  /-- `let mut mismatch_reporter = MismatchReporter::new_enabled();` -/
  | newReporter
  /-- `if !match_inputs(pattern, Some(&mut reporter)).map_err(map_pattern_error)? { return Err(InputsNotMatchedInCallOrder{..}) }` -/
  | matchOrErrInputs
  /-- `Ok(Some((pat_index, pattern)))` -/
  | okSome
  | unknown
  deriving DecidableEq, Repr

inductive OOut
  | errCallOrder (idx : Nat)
  | errInputs (idx pi : Nat)
  | errPattern (pi : Nat)
  | selected (pi : Nat)
  | unwound (pi : Nat)
  | ill
  deriving DecidableEq, Repr

structure OState where
  idx : Option Nat := none          -- the claimed slot
  pi : Option Nat := none           -- the pattern owning it
  reporter : Bool := false

/-- run the statements; `next` = the shared counter before the call, `find idx` = the pattern owning
    slot `idx` (if any), `r pi` = what `match_inputs` says about pattern `pi`.
    Returns the outcome and the counter afterwards. -/
def runO (find : Nat → Option Nat) (r : Nat → R) : List OStep → OState → Nat → OOut × Nat
  | [], _, next => (.ill, next)
  | .bump :: rest, st, next =>
    if st.idx.isSome then (.ill, next) else runO find r rest { st with idx := some next } (next + 1)
  | .findOrErrCallOrder :: rest, st, next =>
    match st.idx with
    | none => (.ill, next)
    | some idx =>
      match find idx with
      | none => (.errCallOrder idx, next)
      | some pi => runO find r rest { st with pi := some pi } next
  | .newReporter :: rest, st, next => runO find r rest { st with reporter := true } next
  | .matchOrErrInputs :: rest, st, next =>
    match st.idx, st.pi, st.reporter with
    | some idx, some pi, true =>
      match r pi with
      | .e => (.errPattern pi, next)
      | .p => (.unwound pi, next)
      | .f => (.errInputs idx pi, next)
      | .t => runO find r rest st next
    | _, _, _ => (.ill, next)
  | .okSome :: _, st, next =>
    match st.pi with
    | some pi => (.selected pi, next)
    | none => (.ill, next)
  | .unknown :: _, _, next => (.ill, next)

/-- the specification of the ordered branch: the call claims slot `next` (the counter moves by
    exactly one, whatever happens afterwards), and is judged against the pattern owning that slot only -/
def specO (find : Nat → Option Nat) (r : Nat → R) (next : Nat) : OOut × Nat :=
  match find next with
  | none => (.errCallOrder next, next + 1)
  | some pi =>
    match r pi with
    | .e => (.errPattern pi, next + 1)
    | .p => (.unwound pi, next + 1)
    | .f => (.errInputs next pi, next + 1)
    | .t => (.selected pi, next + 1)

/-- `bump_ordered_call_index`: which atomic operation, by how much, what is returned -/
inductive AtomicOp | fetchAdd | fetchSub | swap | load | store | other
  deriving DecidableEq, Repr

structure BumpSkel where
  op : AtomicOp
  delta : Nat
  seqCst : Bool
  deriving DecidableEq, Repr

/-- value returned and counter afterwards -/
def BumpSkel.run (b : BumpSkel) (next : Nat) : Option (Nat × Nat) :=
  if b.op = .fetchAdd then some (next, next + b.delta) else none

/-! ## `CallPattern::match_inputs` (`src/call_pattern.rs`): a `match` on (matcher present?, reporter given?) -/

inductive MIResult
  /-- `Ok((downcast_box::<MatchingFn<F>>(f)?.0)(inputs, reporter))` -/
  | callGiven
  /-- the same call with `&mut MismatchReporter::new_disabled()` -/
  | callDisabled
  /-- `Err(PatternError::NoMatcherFunction)` -/
  | errNoMatcher
  | unknown
  deriving DecidableEq, Repr

/-- one arm: what it demands of the two scrutinee components (`none` = `_`) and what it evaluates to -/
structure MIArm where
  matcher : Option Bool
  reporter : Option Bool
  res : MIResult
  deriving DecidableEq, Repr

def MIArm.applies (a : MIArm) (hasMatcher hasReporter : Bool) : Bool :=
  (a.matcher.all (· == hasMatcher)) && (a.reporter.all (· == hasReporter))

/-- Rust `match`: the first arm whose pattern applies -/
def miSelect : List MIArm → Bool → Bool → MIResult
  | [], _, _ => .unknown
  | a :: rest, m, r => if a.applies m r then a.res else miSelect rest m r

/-- what `match_inputs` yields, given the matcher's own verdict `f` (`none` = the user's matcher panicked);
    `none` = the interpreter does not know the arm -/
def miRun (arms : List MIArm) (hasMatcher hasReporter : Bool) (f : Option Bool) : Option R :=
  match miSelect arms hasMatcher hasReporter with
  | .callGiven | .callDisabled =>
    some (match f with | some true => .t | some false => .f | none => .p)
  | .errNoMatcher => some .e
  | .unknown => none

/-! ## `FnMocker::find_call_pattern_for_call_order` (`src/fn_mocker.rs`) -/

structure FindSkel where
  /-- the receiver is `self.call_patterns` -/
  overCallPatterns : Bool
  adaptors : List Adaptor
  /-- the index handed back is the found element's own (`PatIndex(index)` of the same tuple / position) -/
  ownIndex : Bool
  deriving DecidableEq, Repr

/-- meaning, over the per-pattern results of the ownership test: the first index whose test holds. Three spellings are
    known: `iter().enumerate().find(test).map(..)`, a `for` loop returning at the first hit with a trailing `None`, and
    `iter().position(test)?` followed by indexing. `none` = a spelling the interpreter does not know. -/
def FindSkel.run (s : FindSkel) (tests : List Bool) : Option (Option Nat) :=
  if s.overCallPatterns ∧ s.ownIndex ∧
     (s.adaptors = [.iter, .enumerate, .find, .map] ∨ s.adaptors = [.iter, .enumerate, .forReturn] ∨
      s.adaptors = [.iter, .position, .index])
  then some (tests.findIdx? id) else none

/-! ## `SharedState::find_ordered_expected_call_pattern_debug` (`src/state.rs`): which pattern an out-of-order call was expected to hit -/

inductive ExpShape | findMap | forLoop | filterFindMap | other
  deriving DecidableEq, Repr

structure ExpSkel where
  /-- iterates `self.fn_mockers.values()` -/
  overMockers : Bool
  shape : ExpShape
  /-- a mocker whose `pattern_match_mode` is not `InOrder` contributes nothing (`return None` / `continue`) -/
  skipsUnordered : Bool
  /-- the pattern is looked up with `find_call_pattern_for_call_order(ordered_call_index)` -/
  usesFind : Bool
  /-- what is yielded is `fn_mocker.debug_pattern(pat_index)` of that same mocker and index -/
  yieldsFound : Bool
  deriving DecidableEq, Repr

/-- meaning over the per-mocker facts (is it ordered?, what `find_call_pattern_for_call_order` says): the first ordered
    mocker owning the slot, with the index found there; `none` = a shape the interpreter does not know -/
def ExpSkel.run (s : ExpSkel) (ms : List (Bool × Option Nat)) : Option (Option (Nat × Nat)) :=
  if s.overMockers ∧ s.skipsUnordered ∧ s.usesFind ∧ s.yieldsFound ∧ (s.shape = .findMap ∨ s.shape = .forLoop ∨ s.shape = .filterFindMap)
  then some (go ms 0) else none
where go : List (Bool × Option Nat) → Nat → Option (Nat × Nat)
  | [], _ => none
  | (ordered, found) :: rest, k =>
    if ordered then
      match found with
      | some i => some (k, i)
      | none => go rest (k + 1)
    else go rest (k + 1)

/-- classify a pattern's try result the way the closure sees it -/
def ofTry : Option Try → R
  | none => .f
  | some .accept => .t
  | some .noMatcher => .e
  | some .userPanic => .p

end Unimock.ScanSkel
