/-!
# Value chain (`src/value_chain.rs`)

An append-only chain of heap nodes: `push` (through `&self`) appends after the last node and returns
a reference to the new node's value; `push_mut` (through `&mut self`) replaces the whole chain by a
single new node, dropping the old nodes; `Drop` drops every node once, root first.
A reference is modelled by the index of its node.
-/
namespace Unimock

structure Val where
  serial : Nat
  ty : Nat
  deriving Repr, DecidableEq

abbrev Chain := List Val   -- root first

/-- `ValueChain::push`: new chain and the index of the node the returned reference points to -/
def Chain.push (c : Chain) (v : Val) : Chain × Nat := (c ++ [v], c.length)

/-- `ValueChain::push_mut`: new chain, index of the returned reference, values dropped -/
def Chain.pushMut (c : Chain) (v : Val) : Chain × Nat × List Val := ([v], 0, c)

/-- `impl Drop for ValueChain`: the values dropped, in order -/
def Chain.dropAll (c : Chain) : List Val := c

/-- what a retained reference (node index) reads -/
def Chain.read (c : Chain) (i : Nat) : Option Val := c[i]?

/-! ## concurrent `push_node`: a loop of `try_insert` attempts -/

structure Pusher where
  v : Val
  pos : Nat := 0               -- index of the cell the pusher is about to `try_insert` into
  done : Option Nat := none    -- index of the node its returned reference points to
  deriving Repr, DecidableEq

/-- one `try_insert` attempt of pusher `p` (atomic): succeeds iff the cell is still empty -/
def pushAttempt (c : Chain) (p : Pusher) : Chain × Pusher :=
  match p.done with
  | some _ => (c, p)
  | none =>
    if p.pos = c.length then (c ++ [p.v], { p with done := some p.pos })
    else (c, { p with pos := p.pos + 1 })

structure RaceState where
  chain : Chain
  pushers : List Pusher

def raceStep (s : RaceState) (k : Nat) : RaceState :=
  match s.pushers[k]? with
  | none => s
  | some p =>
    let (c, p') := pushAttempt s.chain p
    { chain := c, pushers := s.pushers.set k p' }

def raceRun (s : RaceState) : List Nat → RaceState
  | [] => s
  | k :: ks => raceRun (raceStep s k) ks

end Unimock
