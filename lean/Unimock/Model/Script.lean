import Unimock.Model.Method
/-!
# A mock whose required method replays a script, versus a plain script-replaying implementation

`scriptMock m script i`: the shared state of a mock built from one unordered clause for the required
method `m` that accepts every input and answers the k-th match with `script[k]`
(`returns(v0).once().then().returns(v1).once()…`: responders starting at 0, 1, 2, …), after `i`
matches. `runPlain`: the obvious hand-written implementation of the same trait over the same script
(an index into the script), interpreting the same user code (an upstream provided method, modelled as
an interaction tree over calls to the required method).
-/
namespace Unimock
variable {α ρ : Type}

def scriptResponders (script : List ρ) : List (Responder ρ) :=
  script.zipIdx.map fun (v, i) => { start := i, resp := .ret v false, taken := false }

def scriptPattern (script : List ρ) (i : Nat) : Pattern α ρ :=
  { matcher := some (fun _ => some true), dbg := none, responders := scriptResponders script,
    lo := 0, hi := 0, min := script.length, ex := .exact, count := i }

def scriptMock (fb : Fallback) (m : MethodInfo) (script : List ρ) (i : Nat) : Shared α ρ :=
  { fallback := fb, mockers := [{ info := m, mode := .anyOrder, pats := [scriptPattern script i] }],
    nextOrdered := 0, reasons := [] }

/-- the hand-written implementation: `none` = the script ran out (or fuel did); otherwise the result
    of the user code (`none` = it panicked) and the new script position -/
def runPlain (m : MethodInfo) (script : List ρ) : Nat → Nat → Prog α ρ → Option (Option ρ × Nat)
  | _, i, .done r => some (r, i)
  | 0, _, _ => none
  | f+1, i, .call m' _ k =>
    if m'.id = m.id then
      match script[i]? with
      | some v => runPlain m script f (i + 1) (k v)
      | none => none
    else none
  | f+1, i, .log _ k => runPlain m script f i k
  | f+1, i, .park k => runPlain m script f i k

end Unimock
