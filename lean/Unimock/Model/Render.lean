/-!
# Rendering of mock-induced error messages (`src/error.rs`, `src/debug.rs`, `src/counter.rs`)

First line of `Display for MockError`, built from `FnActualCall` (`Trait::method(args)`, `?` for
arguments without `Debug`), `TraitMethodPath`, `CallPatternDebug` (source text + `file:line`, or
`call pattern Trait::method[#i]`), `CallOrder` (1-based) and `NCalls`.
-/
namespace Unimock.Render

structure Path where
  trait : String
  method : String
  deriving Repr, DecidableEq

def Path.render (p : Path) : String := p.trait ++ "::" ++ p.method

/-- `Display for FnActualCall`: the peekable loop writes the arguments separated by ", " -/
def renderCall (p : Path) (args : List (Option String)) : String :=
  p.render ++ "(" ++ ", ".intercalate (args.map (·.getD "?")) ++ ")"

inductive PatLoc
  | debug (src file : String) (line : Nat)    -- `matching!` registered its source text and location
  | index (i : Nat)
  deriving Repr, DecidableEq

/-- `Display for CallPatternDebug` -/
def renderPattern (p : Path) : PatLoc → String
  | .debug src file line => p.render ++ src ++ " at " ++ file ++ ":" ++ toString line
  | .index i => "call pattern " ++ p.render ++ "[#" ++ toString i ++ "]"

/-- `Display for NCalls` -/
def renderNCalls : Nat → String
  | 0 => "no calls"
  | 1 => "1 call"
  | n => toString n ++ " calls"

inductive Msg
  | noMockImplementation (p : Path) (args : List (Option String))
  | noMatcherFunction (p : Path) (args : List (Option String)) (pat : PatLoc)
  | noMatchingCallPatterns (p : Path) (args : List (Option String))
  | noOutputAvailable (p : Path) (args : List (Option String)) (pat : PatLoc)
  | wrongOrder (p : Path) (args : List (Option String)) (expected : Path) (pat : PatLoc)
  | outOfRange (p : Path) (args : List (Option String)) (order : Nat)          -- 0-based call order
  | inputsNotMatched (p : Path) (args : List (Option String)) (order : Nat) (pat : PatLoc)
  | cannotReturnTwice (p : Path) (args : List (Option String)) (pat : PatLoc)
  | explicitPanic (p : Path) (args : List (Option String)) (pat : PatLoc) (msg : String)
  | cannotUnmock (p : Path)
  | noDefaultImpl (p : Path)
  | notAnswered (p : Path)
  | failedVerification (p : Path) (pat : PatLoc) (exact : Bool) (bound actual : Nat)
  | mockNeverCalled (p : Path)

/-- the text up to (and including) the part that names call and pattern; mismatch details follow on later lines -/
def render : Msg → String
  | .noMockImplementation p a => renderCall p a ++ ": No mock implementation found."
  | .noMatcherFunction p a pat => renderCall p a ++ ": No function supplied for matching inputs for " ++ renderPattern p pat ++ "."
  | .noMatchingCallPatterns p a => renderCall p a ++ ": No matching call patterns. "
  | .noOutputAvailable p a pat => renderCall p a ++ ": No output available for after matching " ++ renderPattern p pat ++ "."
  | .wrongOrder p a ep pat => renderCall p a ++ ": Method matched in wrong order. Expected a call matching " ++ renderPattern ep pat ++ "."
  | .outOfRange p a o => renderCall p a ++ ": Ordered call (" ++ toString (o + 1) ++ ") out of range: There were no more ordered call patterns in line for selection."
  | .inputsNotMatched p a o pat => renderCall p a ++ ": Method invoked in the correct order (" ++ toString (o + 1) ++ "), but inputs didn't match " ++ renderPattern p pat ++ ". "
  | .cannotReturnTwice p a pat => renderCall p a ++ ": Cannot return value more than once from " ++ renderPattern p pat ++ ", because of missing Clone bound. Try using `.each_call()` or explicitly quantifying the response."
  | .explicitPanic p a pat msg => renderCall p a ++ ": Explicit panic from " ++ renderPattern p pat ++ ": " ++ msg
  | .cannotUnmock p => p.render ++ " cannot be unmocked as there is no function available to call."
  | .noDefaultImpl p => p.render ++ " has not been set up with default implementation delegation."
  | .notAnswered p => p.render ++ " did not apply the answer function, this is a bug."
  | .failedVerification p pat exact b act =>
    p.render ++ ": Expected " ++ renderPattern p pat ++ " to match " ++ (if exact then "exactly " else "at least ") ++
      renderNCalls b ++ ", but it actually matched " ++ renderNCalls act ++ "."
  | .mockNeverCalled p => "Mock for " ++ p.render ++ " was never called. Dead mocks should be removed."

/-- the call a message is about, if it carries one -/
def Msg.call? : Msg → Option (Path × List (Option String))
  | .noMockImplementation p a | .noMatcherFunction p a _ | .noMatchingCallPatterns p a | .noOutputAvailable p a _
  | .wrongOrder p a _ _ | .outOfRange p a _ | .inputsNotMatched p a _ _ | .cannotReturnTwice p a _ | .explicitPanic p a _ _ => some (p, a)
  | _ => none

def Msg.path : Msg → Path
  | .noMockImplementation p _ | .noMatcherFunction p _ _ | .noMatchingCallPatterns p _ | .noOutputAvailable p _ _
  | .wrongOrder p _ _ _ | .outOfRange p _ _ | .inputsNotMatched p _ _ _ | .cannotReturnTwice p _ _ | .explicitPanic p _ _ _
  | .cannotUnmock p | .noDefaultImpl p | .notAnswered p | .failedVerification p _ _ _ _ | .mockNeverCalled p => p

/-- the pattern a message is about, with the path it is rendered under -/
def Msg.pattern? : Msg → Option (Path × PatLoc)
  | .noMatcherFunction p _ pat | .noOutputAvailable p _ pat | .inputsNotMatched p _ _ pat | .cannotReturnTwice p _ pat
  | .explicitPanic p _ pat _ | .failedVerification p pat _ _ _ => some (p, pat)
  | .wrongOrder _ _ ep pat => some (ep, pat)
  | _ => none

end Unimock.Render
