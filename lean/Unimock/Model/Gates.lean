/-!
# Control skeletons: the vocabulary `tools/translate_control.py` translates source control flow into

The translator reads the statement sequence of `teardown::teardown`, of `impl Drop for Unimock`, of `Unimock::verify`
and `Unimock::no_verify_in_drop`, the struct literals of `Unimock::from_assembler` and `Clone for Unimock`, the
"no mocker" / "no match" decision trees of `DynCtx::eval_dyn` and the responder dispatch of `eval::eval`, and writes them
as data of the types below (`Generated/Control.lean`). The interpreters here give that data its meaning; `Props/*` prove
the interpreted source skeleton equal to the hand-written model's functions for *every* observation (finite tables,
decided by the kernel), so a semantically neutral re-ordering of the source still checks while a change of behaviour
does not.
-/
namespace Unimock.Gates

/-- one statement of `teardown::teardown` -/
inductive Step
  | setTornDown
  | dropHelper
  | dropChain
  | retOkIfNotOriginal
  | retOkIfPanicking
  /-- `let n = Arc::strong_count(..)`: the count is read here, whatever is released afterwards -/
  | sampleStrong
  /-- compares the sampled count if one was taken, else reads the count on the spot -/
  | panicIfStrongGt (k : Nat)
  | panicIfOtherThread
  | errIfReasons
  | verify
  deriving Repr, DecidableEq

/-- what `teardown` can observe -/
structure Obs where
  original : Bool
  panicking : Bool
  /-- other live instances (or their helpers / parked clones) hold the shared state -/
  others : Bool
  /-- this instance's own helper chain holds a clone -/
  helperAlive : Bool
  /-- this instance's own value chain holds a clone -/
  parkedAlive : Bool
  otherThread : Bool
  reasons : Bool
  verifyErrs : Bool
  deriving Repr, DecidableEq

inductive Verdict
  | ok | panicClones | panicThread | errsReasons | errsVerify
  /-- the statement list ended without a result (never the case for a well-formed `teardown`) -/
  | fellThrough
  deriving Repr, DecidableEq

structure Flags where
  tornDown : Bool := false
  helperDropped : Bool := false
  chainDropped : Bool := false
  deriving Repr, DecidableEq

def b2n (b : Bool) : Nat := if b then 1 else 0

/-- `Arc::strong_count` as seen at the moment the gate runs -/
def strongAt (o : Obs) (f : Flags) : Nat :=
  1 + b2n o.others + b2n (o.helperAlive && !f.helperDropped) + b2n (o.parkedAlive && !f.chainDropped)

def runS : List Step → Obs → Flags → Option Nat → Verdict × Flags
  | [], _, f, _ => (.fellThrough, f)
  | .setTornDown :: r, o, f, s => runS r o { f with tornDown := true } s
  | .dropHelper :: r, o, f, s => runS r o { f with helperDropped := true } s
  | .dropChain :: r, o, f, s => runS r o { f with chainDropped := true } s
  | .retOkIfNotOriginal :: r, o, f, s => if !o.original then (.ok, f) else runS r o f s
  | .retOkIfPanicking :: r, o, f, s => if o.panicking then (.ok, f) else runS r o f s
  | .sampleStrong :: r, o, f, _ => runS r o f (some (strongAt o f))
  | .panicIfStrongGt k :: r, o, f, s => if s.getD (strongAt o f) > k then (.panicClones, f) else runS r o f s
  | .panicIfOtherThread :: r, o, f, s => if o.otherThread then (.panicThread, f) else runS r o f s
  | .errIfReasons :: r, o, f, s => if o.reasons then (.errsReasons, f) else runS r o f s
  | .verify :: _, o, f, _ => (if o.verifyErrs then .errsVerify else .ok, f)

def run (steps : List Step) (o : Obs) (f : Flags) : Verdict × Flags := runS steps o f none

/-- the model's `teardownInst` / `teardownVerdict`, on observations -/
def specVerdict (o : Obs) : Verdict × Flags :=
  (if !o.original then .ok
   else if o.panicking then .ok
   else if o.others then .panicClones
   else if o.otherThread then .panicThread
   else if o.reasons then .errsReasons
   else if o.verifyErrs then .errsVerify
   else .ok,
   { tornDown := true, helperDropped := true, chainDropped := true })

/-! ### `impl Drop for Unimock`, `Unimock::verify`, `Unimock::no_verify_in_drop` -/

inductive DStep
  | retIfTornDown
  | teardownIfVerifyInDrop
  | teardown
  | panicIfNotOriginal
  | clearVerifyInDrop
  deriving Repr, DecidableEq

inductive DResult
  | nothing | teardown | panicNotOriginal | cleared
  deriving Repr, DecidableEq

structure IFlags where
  original : Bool
  tornDown : Bool
  verifyInDrop : Bool
  deriving Repr, DecidableEq

def runD : List DStep → IFlags → DResult
  | [], _ => .nothing
  | .retIfTornDown :: r, f => if f.tornDown then .nothing else runD r f
  | .teardownIfVerifyInDrop :: r, f => if f.verifyInDrop then .teardown else runD r f
  | .teardown :: _, _ => .teardown
  | .panicIfNotOriginal :: r, f => if !f.original then .panicNotOriginal else runD r f
  | .clearVerifyInDrop :: _, _ => .cleared

def specDrop (f : IFlags) : DResult := if f.tornDown then .nothing else if f.verifyInDrop then .teardown else .nothing
def specVerify (f : IFlags) : DResult := if !f.original then .panicNotOriginal else .teardown
def specNoVerify (f : IFlags) : DResult := if !f.original then .panicNotOriginal else .cleared

/-! ### `eval_dyn`: no mocker for the function / no pattern matched; `eval`: responder dispatch -/

inductive Fb | error | unmock deriving Repr, DecidableEq

inductive NoMock
  | callDefault | unmock | errNoMockImplementation | errNoMatchingCallPatterns
  deriving Repr, DecidableEq

/-- a decision tree over `info.has_default_impl`, `info.partial_by_default`, `fallback_mode` -/
inductive Tree
  | leaf (r : NoMock)
  | ifDefault (t e : Tree)
  | ifPartial (t e : Tree)
  | onFallback (error unmock : Tree)
  deriving Repr, DecidableEq

def Tree.eval : Tree → Bool → Bool → Fb → NoMock
  | .leaf r, _, _, _ => r
  | .ifDefault t e, d, p, fb => if d then t.eval d p fb else e.eval d p fb
  | .ifPartial t e, d, p, fb => if p then t.eval d p fb else e.eval d p fb
  | .onFallback er un, d, p, fb => match fb with
    | .error => er.eval d p fb
    | .unmock => un.eval d p fb

def specNoMocker (d p : Bool) (fb : Fb) : NoMock :=
  if d then .callDefault else if p then .unmock else match fb with
    | .error => .errNoMockImplementation
    | .unmock => .unmock

def specNoMatch (fb : Fb) : NoMock := match fb with
  | .error => .errNoMatchingCallPatterns
  | .unmock => .unmock

inductive RVariant | ret | answer | panic | unmock | applyDefaultImpl deriving Repr, DecidableEq

inductive Disp
  | returnOrCannotReturnTwice | contAnswer | errExplicitPanic | contUnmock | contDefault | unknown
  deriving Repr, DecidableEq

def specDispatch : RVariant → Disp
  | .ret => .returnOrCannotReturnTwice
  | .answer => .contAnswer
  | .panic => .errExplicitPanic
  | .unmock => .contUnmock
  | .applyDefaultImpl => .contDefault

/-! ### the error path: `Unimock::induce_panic`, `Continuation::report` -/

inductive EStep
  | formatMsg | record | panicMsg | panicOther
  /-- no_std only: sets the `panicked` flag of the instance the call was made on (not of any other instance) -/
  | setOwnFlag
  deriving Repr, DecidableEq

/-- runs the statement list of `induce_panic`: `some (recorded before the panic?, the panic carries the error's own text?)`,
    `none` if the list ends without panicking -/
def runE : List EStep → Bool → Bool → Option (Bool × Bool)
  | [], _, _ => none
  | .formatMsg :: r, _, rec => runE r true rec
  | .record :: r, f, _ => runE r f true
  | .panicMsg :: _, f, rec => some (rec, f)
  | .panicOther :: _, _, rec => some (rec, false)
  | .setOwnFlag :: r, f, rec => runE r f rec

/-- does the statement list set the calling instance's own flag before it panics? -/
def setsOwnFlag : List EStep → Bool
  | [] => false
  | .setOwnFlag :: _ => true
  | .panicMsg :: _ | .panicOther :: _ => false
  | _ :: r => setsOwnFlag r

inductive RCont | answer | unmock | callDefault deriving Repr, DecidableEq
inductive EKind | notAnswered | cannotUnmock | noDefaultImpl | other deriving Repr, DecidableEq

def specReportError : RCont → EKind
  | .answer => .notAnswered
  | .unmock => .cannotUnmock
  | .callDefault => .noDefaultImpl

/-! ### helper cell; `Sink::push` of the assembler -/

inductive CellUse
  /-- `get_or_init(|| Box::new(DefaultImplDelegator::__from_unimock(self.clone())))`: an existing helper is reused, a new one is a clone -/
  | getOrInitClone
  | other
  deriving Repr, DecidableEq

inductive PStep
  | errIfOutputError | newPattern | onEntry | ok
  | errIfModeDiffers | appendPattern | insertMocker
  deriving Repr, DecidableEq

inductive PResult | errOutput | errMode | appended | inserted | fellThrough deriving Repr, DecidableEq

/-- what `push` observes: the builder carries an output error; a mocker for the method exists; its mode differs -/
structure PObs where
  outputError : Bool
  exists_ : Bool
  modeDiffers : Bool
  deriving Repr, DecidableEq

/-- runs `push`: the result, and whether `new_call_pattern` ran (slots were allocated) before it -/
def runP (occupied vacant : List PStep) : List PStep → PObs → Bool → Option PResult → PResult × Bool
  | [], _, np, r => (r.getD .fellThrough, np)
  | .errIfOutputError :: rest, o, np, r => if o.outputError then (.errOutput, np) else runP occupied vacant rest o np r
  | .newPattern :: rest, o, _, r => runP occupied vacant rest o true r
  | .onEntry :: rest, o, np, r =>
    let arm := if o.exists_ then occupied else vacant
    -- the arm is a straight line of at most two steps
    match arm with
    | [.errIfModeDiffers, .appendPattern] => if o.modeDiffers then (.errMode, np) else runP occupied vacant rest o np (some (if np then .appended else .fellThrough))
    | [.appendPattern] => runP occupied vacant rest o np (some (if np then .appended else .fellThrough))
    | [.insertMocker] => runP occupied vacant rest o np (some (if np then .inserted else .fellThrough))
    | _ => (.fellThrough, np)
  | .ok :: _, _, np, r => (r.getD .fellThrough, np)
  | _ :: _, _, np, _ => (.fellThrough, np)

def specPush (o : PObs) : PResult × Bool :=
  if o.outputError then (.errOutput, false)
  else if o.exists_ then (if o.modeDiffers then (.errMode, true) else (.appended, true))
  else (.inserted, true)

end Unimock.Gates
