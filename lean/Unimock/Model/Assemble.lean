import Unimock.Model.Core
namespace Unimock

/-- A terminal clause as it reaches `Sink::push`: method info + finished builder. -/
structure Terminal (α ρ : Type) where
  info : MethodInfo
  b : Builder α ρ

inductive ClauseTree (α ρ : Type)
  | unit
  | term (t : Terminal α ρ)
  | stub (info : MethodInfo) (ps : List (Builder α ρ))     -- `Each`
  | tuple (cs : List (ClauseTree α ρ))

inductive AsmError
  | outputError | emptyStub | modeConflict (m : MethodInfo) (old new : Mode)
  deriving Repr, DecidableEq

/-- what reaches the sink, left to right; `emptyStub` error aborts (Clause for Each). -/
def flatten {α ρ} : ClauseTree α ρ → List (Except AsmError (Terminal α ρ))
  | .unit => []
  | .term t => [.ok t]
  | .stub info ps => if ps.isEmpty then [.error .emptyStub] else ps.map fun b => .ok ⟨info, b⟩
  | .tuple cs => flattenList cs
where flattenList : List (ClauseTree α ρ) → List (Except AsmError (Terminal α ρ))
  | [] => []
  | c :: cs => flatten c ++ flattenList cs

structure Asm (α ρ : Type) where
  mockers : List (FnMocker α ρ) := []
  cur : Nat := 0          -- current_call_index

def exactCalls {α ρ} (b : Builder α ρ) : Nat := b.min   -- only used when ex = exact (type-state)

def newPattern {α ρ} (a : Asm α ρ) (b : Builder α ρ) : Asm α ρ × Pattern α ρ :=
  if b.mode = .inOrder then
    let lo := a.cur
    let hi := a.cur + exactCalls b
    ({ a with cur := hi }, ⟨b.matcher, b.dbg, b.responders, lo, hi, b.min, b.ex, 0⟩)
  else (a, ⟨b.matcher, b.dbg, b.responders, 0, 0, b.min, b.ex, 0⟩)

def Asm.push {α ρ} (a : Asm α ρ) (t : Terminal α ρ) : Except AsmError (Asm α ρ) :=
  if t.b.outputError then .error .outputError else
  let (a, p) := newPattern a t.b
  match a.mockers.find? (·.info.id = t.info.id) with
  | some fm =>
    if fm.mode ≠ t.b.mode then .error (.modeConflict fm.info fm.mode t.b.mode)
    else .ok { a with mockers := a.mockers.map fun m =>
                 if m.info.id = t.info.id then { m with pats := m.pats ++ [p] } else m }
  | none => .ok { a with mockers := a.mockers ++ [⟨t.info, t.b.mode, [p]⟩] }

def assembleList {α ρ} : Asm α ρ → List (Except AsmError (Terminal α ρ)) → Except AsmError (Asm α ρ)
  | a, [] => .ok a
  | _, .error e :: _ => .error e
  | a, .ok t :: ts => match a.push t with
    | .error e => .error e
    | .ok a' => assembleList a' ts

def newMock {α ρ} (fb : Fallback) (c : ClauseTree α ρ) : Except AsmError (Shared α ρ) :=
  match assembleList {} (flatten c) with
  | .error e => .error e
  | .ok a => .ok ⟨fb, a.mockers, 0, []⟩

end Unimock

namespace Unimock

/-- order in which a tuple of arity `n` deconstructs its fields, according to a table of
    `Clause for (T1, .., Tn)` impls; arities without an impl do not type-check (modelled as declaration order) -/
def tupleOrder (table : List (Nat × List Nat)) (n : Nat) : List Nat :=
  match table.find? (·.1 = n) with
  | some row => row.2
  | none => List.range n

/-- `Clause::deconstruct` with the tuple impls taken from `table`: what reaches the sink, in order -/
def deconstruct {α ρ} (table : List (Nat × List Nat)) : ClauseTree α ρ → List (Except AsmError (Terminal α ρ))
  | .unit => []
  | .term t => [.ok t]
  | .stub info ps => if ps.isEmpty then [.error .emptyStub] else ps.map fun b => .ok ⟨info, b⟩
  | .tuple cs =>
    let kids := deconstructList table cs
    (tupleOrder table kids.length).flatMap fun i => kids[i]?.getD []
where deconstructList (table : List (Nat × List Nat)) :
    List (ClauseTree α ρ) → List (List (Except AsmError (Terminal α ρ)))
  | [] => []
  | c :: cs => deconstruct table c :: deconstructList table cs

end Unimock
