import Unimock.Model.Method
import Unimock.Model.Assemble
/-!
# Instances, clones, threads, teardown

Mirrors `Unimock::{new,new_partial,clone,drop,verify,no_verify_in_drop}`, `Termination::report`
(`src/lib.rs`) and `src/teardown.rs`, std configuration (a `threadPanicking` flag models
`std::thread::panicking()`).
-/
namespace Unimock

structure Inst where
  sh : Nat                     -- which shared state (index into `World.mocks`)
  original : Bool
  tornDown : Bool := false
  verifyInDrop : Bool := true
  helper : Nat := 0            -- length of the chain of helper clones hanging off `default_impl_delegator_cell`
  parked : Nat := 0            -- clones of the mock sitting in this instance's (or its helpers') value chains
  alive : Bool := true
  deriving Repr, DecidableEq

structure MockSt (α ρ : Type) where
  shared : Shared α ρ
  creator : Nat                -- `original_thread`

structure World (α ρ : Type) where
  mocks : List (MockSt α ρ) := []
  insts : List (Nat × Inst) := []

inductive Teardown
  | ok
  | errs (es : List MockError)     -- `Err(errors)`: `teardown_panic` panics with their renderings
  | panicClones
  | panicThread
  deriving Repr, DecidableEq

inductive Outcome (α ρ : Type)
  | call (log : List (LogEntry α)) (out : CallOutcome ρ)
  | built
  | buildPanic (e : AsmError)
  | ok
  | teardown (t : Teardown)
  | panicOnClone
  | exit (failure : Bool) (lines : List MockError)
  | unwound (log : List (LogEntry α)) (out : CallOutcome ρ) (drops : List Teardown)
  | consumed (log : List (LogEntry α)) (out : CallOutcome ρ) (drop : Teardown)
  | badEvent
  deriving Repr

variable {α ρ : Type}

def World.inst? (w : World α ρ) (i : Nat) : Option Inst := (w.insts.find? (·.1 = i)).map (·.2)

def World.setInst (w : World α ρ) (i : Nat) (x : Inst) : World α ρ :=
  if w.insts.any (·.1 = i) then
    { w with insts := w.insts.map fun p => if p.1 = i then (i, x) else p }
  else { w with insts := w.insts ++ [(i, x)] }

def World.setShared (w : World α ρ) (sh : Nat) (s : Shared α ρ) : World α ρ :=
  { w with mocks := w.mocks.zipIdx.map fun (m, k) => if k = sh then { m with shared := s } else m }

/-- `Arc::strong_count(&shared_state)`: live instances plus their helper clones -/
def World.strong (w : World α ρ) (sh : Nat) : Nat :=
  ((w.insts.filter fun p => p.2.alive && p.2.sh == sh).map fun p => 1 + p.2.helper + p.2.parked).sum

/-- the decision part of `teardown::teardown`, evaluated in the world where the instance has
    already set `torn_down` and dropped its helper chain and value chain -/
def teardownVerdict (w : World α ρ) (x : Inst) (t : Nat) (threadPanicking : Bool) : Teardown :=
  if !x.original then .ok
  else if threadPanicking then .ok
  else if w.strong x.sh > 1 then .panicClones
  else match w.mocks[x.sh]? with
    | none => .ok   -- unreachable
    | some m =>
      if t ≠ m.creator then .panicThread
      else if !m.shared.reasons.isEmpty then .errs m.shared.reasons
      else
        let es := verifyAll m.shared
        if es.isEmpty then .ok else .errs es

/-- `teardown::teardown` on instance `x` (already looked up), running on thread `t`. -/
def teardownInst (w : World α ρ) (i : Nat) (x : Inst) (t : Nat) (threadPanicking : Bool) :
    World α ρ × Teardown :=
  -- torn_down = true; drop helper; drop value chain
  let x' := { x with tornDown := true, helper := 0, parked := 0 }
  let w' := w.setInst i x'
  (w', teardownVerdict w' x' t threadPanicking)

/-- the instance's memory is released (Arc decremented, helper dropped with it) -/
def World.free (w : World α ρ) (i : Nat) : World α ρ :=
  match w.inst? i with
  | none => w
  | some x => w.setInst i { x with alive := false, helper := 0, parked := 0 }

/-- `impl Drop for Unimock` followed by the drop glue -/
def dropInst (w : World α ρ) (i : Nat) (t : Nat) (threadPanicking : Bool) : World α ρ × Teardown :=
  match w.inst? i with
  | none => (w, .ok)
  | some x =>
    if x.tornDown then (w.free i, .ok)
    else if x.verifyInDrop then
      let (w, r) := teardownInst w i x t threadPanicking
      (w.free i, r)
    else (w.free i, .ok)

/-- drop several instances one after the other on a panicking thread -/
def dropAllUnwinding (w : World α ρ) (t : Nat) : List Nat → World α ρ × List Teardown
  | [] => (w, [])
  | i :: is =>
    let (w, r) := dropInst w i t true
    let (w, rs) := dropAllUnwinding w t is
    (w, r :: rs)

inductive Event (α ρ : Type)
  | build (i : Nat) (t : Nat) (fb : Fallback) (c : ClauseTree α ρ)
  | call (i t : Nat) (m : MethodInfo) (a : α)
  | clone (i j : Nat)
  | drop (i t : Nat) (panicking : Bool)
  | verify (i t : Nat)
  | noVerify (i t : Nat)
  | report (i t : Nat)
  /-- a call on `i` inside a scope that then unwinds (from the call's own panic or a later user panic):
      `i` and the instances `also` are dropped while the thread is panicking -/
  | unwindCall (i t : Nat) (m : MethodInfo) (a : α) (also : List Nat)
  /-- a by-value provided method: the instance is moved in, wrapped by `to_delegator`, unwrapped and
      dropped after the call (normally, or while unwinding if the call panicked) -/
  | consume (i t : Nat) (m : MethodInfo) (a : α)

def fuelDefault : Nat := 64

def step (env : Env α ρ) (w : World α ρ) : Event α ρ → World α ρ × Outcome α ρ
  | .build i t fb c =>
    match newMock fb c with
    | .error e => (w, .buildPanic e)
    | .ok s =>
      let sh := w.mocks.length
      let w : World α ρ := { w with mocks := w.mocks ++ [MockSt.mk s t] }
      (w.setInst i { sh := sh, original := true }, .built)
  | .call i _t m a =>
    match w.inst? i with
    | none => (w, .badEvent)
    | some x =>
      if !x.alive then (w, .badEvent) else
      match w.mocks[x.sh]? with
      | none => (w, .badEvent)
      | some ms =>
        let r := callMethod env fuelDefault 0 ms.shared m a
        let w := w.setShared x.sh r.shared
        let w := w.setInst i { x with helper := max x.helper r.helperDepth, parked := x.parked + r.parked }
        (w, .call r.log r.out)
  | .clone i j =>
    match w.inst? i with
    | none => (w, .badEvent)
    | some x =>
      if !x.alive then (w, .badEvent) else
      (w.setInst j { sh := x.sh, original := false, verifyInDrop := x.verifyInDrop }, .ok)
  | .drop i t p =>
    match w.inst? i with
    | none => (w, .badEvent)
    | some x =>
      if !x.alive then (w, .badEvent) else
      let (w, r) := dropInst w i t p
      (w, .teardown r)
  | .verify i t =>
    match w.inst? i with
    | none => (w, .badEvent)
    | some x =>
      if !x.alive then (w, .badEvent) else
      if !x.original then
        -- panics; `self` is dropped while unwinding (a clone: teardown returns Ok)
        let (w, _) := dropInst w i t true
        (w, .panicOnClone)
      else
        let (w, r) := teardownInst w i x t false
        (w.free i, .teardown r)
  | .noVerify i t =>
    match w.inst? i with
    | none => (w, .badEvent)
    | some x =>
      if !x.alive then (w, .badEvent) else
      if !x.original then
        let (w, _) := dropInst w i t true
        (w, .panicOnClone)
      else (w.setInst i { x with verifyInDrop := false }, .ok)
  | .report i t =>
    match w.inst? i with
    | none => (w, .badEvent)
    | some x =>
      if !x.alive then (w, .badEvent) else
      let (w, r) := teardownInst w i x t false
      match r with
      | .ok => (w.free i, .exit false [])
      | .errs es => (w.free i, .exit true es)
      | r => (w.free i, .teardown r)
  | .unwindCall i t m a also =>
    match w.inst? i with
    | none => (w, .badEvent)
    | some x =>
      if !x.alive then (w, .badEvent) else
      match w.mocks[x.sh]? with
      | none => (w, .badEvent)
      | some ms =>
        let r := callMethod env fuelDefault 0 ms.shared m a
        let w := w.setShared x.sh r.shared
        let w := w.setInst i { x with helper := max x.helper r.helperDepth, parked := x.parked + r.parked }
        -- locals are dropped in reverse declaration order: the called instance first, then `also`
        let (w, rs) := dropAllUnwinding w t (i :: also)
        (w, .unwound r.log r.out rs)
  | .consume i t m a =>
    match w.inst? i with
    | none => (w, .badEvent)
    | some x =>
      if !x.alive then (w, .badEvent) else
      match w.mocks[x.sh]? with
      | none => (w, .badEvent)
      | some ms =>
        let r := callMethod env fuelDefault 0 ms.shared m a
        let w := w.setShared x.sh r.shared
        -- `to_delegator(self)` wraps the instance itself: no helper clone is created
        let w := w.setInst i { x with parked := x.parked + r.parked }
        let panicked := match r.out with | .ret _ => false | _ => true
        let (w, d) := dropInst w i t panicked
        (w, .consumed r.log r.out d)

def run (env : Env α ρ) : World α ρ → List (Event α ρ) → World α ρ × List (Outcome α ρ)
  | w, [] => (w, [])
  | w, e :: es =>
    let (w, o) := step env w e
    let (w, os) := run env w es
    (w, o :: os)

end Unimock
