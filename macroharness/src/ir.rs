//! Fact extraction from the token streams produced by the real macros.
use quote::ToTokens;
use syn::visit::Visit;

fn norm<T: ToTokens>(t: &T) -> String {
    t.to_token_stream().to_string().split_whitespace().collect::<Vec<_>>().join("")
}

fn args_of(args: &syn::punctuated::Punctuated<syn::Expr, syn::token::Comma>) -> Vec<String> {
    args.iter().map(norm).collect()
}

struct Facts {
    out: Vec<String>,
    method: String,
    unmock_paths: Vec<String>,
    in_await: bool,
}

impl Facts {
    fn fact(&mut self, s: String) {
        self.out.push(format!("  {s}"));
    }
    fn visit_tokens_as_expr(&mut self, ts: proc_macro2::TokenStream) {
        if let Ok(e) = syn::parse2::<syn::Expr>(ts.clone()) {
            self.visit_expr(&e);
        }
    }
}

fn path_last(p: &syn::Path) -> String {
    p.segments.last().map(|s| s.ident.to_string()).unwrap_or_default()
}

impl<'ast> Visit<'ast> for Facts {
    fn visit_local(&mut self, l: &'ast syn::Local) {
        let pat = norm(&l.pat);
        if pat == "mut__self" {
            if let Some(init) = &l.init {
                self.fact(format!("surrogate {}", norm(&init.expr)));
            }
        } else if pat.starts_with("(__cont,") {
            self.fact(format!("rebind {pat}"));
        }
        syn::visit::visit_local(self, l);
    }

    fn visit_expr_await(&mut self, e: &'ast syn::ExprAwait) {
        let prev = self.in_await;
        self.in_await = true;
        self.visit_expr(&e.base);
        self.in_await = prev;
    }

    fn visit_expr_call(&mut self, c: &'ast syn::ExprCall) {
        let awaited = self.in_await;
        self.in_await = false;
        let f = norm(&c.func);
        let args = args_of(&c.args);
        if let syn::Expr::Path(p) = c.func.as_ref() {
            let last = path_last(&p.path);
            if last == "eval" && f.contains("private::eval::<") {
                let mockfn = { let t = f.split("eval::<").nth(1).unwrap_or(""); t.strip_suffix('>').unwrap_or(t).to_string() };
                self.fact(format!("eval mockfn={} self={} params={}", mockfn, args.first().cloned().unwrap_or_default(), args.get(1).cloned().unwrap_or_default()));
            } else if f == "__answer_fn" {
                self.fact(format!("call answer self={} args={}", args.first().cloned().unwrap_or_default(), args[1.min(args.len())..].join(",")));
            } else if self.unmock_paths.contains(&f) {
                self.fact(format!("call unmock path={} args={} await={}", f, args.join(","), awaited as u8));
            } else if p.qself.is_some() && f.contains("DefaultImplDelegator") && f.ends_with(&format!("::{}", self.method)) {
                self.fact(format!("call delegate ctor={} args={} await={}", args.first().cloned().unwrap_or_default(), args[1.min(args.len())..].join(","), awaited as u8));
            } else if p.qself.is_some() && f.contains("Unimock") && f.ends_with(&format!("::{}", self.method)) {
                self.fact(format!("call unimock accessor={} args={} await={}", args.first().cloned().unwrap_or_default(), args[1.min(args.len())..].join(","), awaited as u8));
            }
        }
        syn::visit::visit_expr_call(self, c);
    }

    fn visit_expr_method_call(&mut self, m: &'ast syn::ExprMethodCall) {
        if m.method == "report" {
            self.fact(format!("call report recv={} self={}", norm(&m.receiver), args_of(&m.args).join(",")));
        }
        syn::visit::visit_expr_method_call(self, m);
    }

    fn visit_arm(&mut self, a: &'ast syn::Arm) {
        let pat = norm(&a.pat);
        let kind = if pat.contains("Eval::Return(") {
            Some(("return".to_string(), String::new()))
        } else if let Some(pos) = pat.find("Continuation::") {
            let _ = pos;
            // every continuation the arm accepts (an or-pattern names several), in source order
            let name: String = pat.split("Continuation::").skip(1).map(|rest| rest.chars().take_while(|c| c.is_alphanumeric()).collect::<String>()).collect::<Vec<_>>().join("|");
            // inputs pattern = what follows the continuation inside Eval::Continue(.., <pat>)
            let inputs = if pat.contains("Eval::Continue(") {
                let inner = &pat[pat.find("Eval::Continue(").unwrap() + "Eval::Continue(".len()..pat.len() - 1];
                // split at top-level comma
                let mut depth = 0;
                let mut split = None;
                for (i, ch) in inner.char_indices() {
                    match ch { '(' | '[' | '<' => depth += 1, ')' | ']' | '>' => depth -= 1, ',' if depth == 0 => { split = Some(i); break; } _ => {} }
                }
                split.map(|i| inner[i + 1..].to_string()).unwrap_or_default()
            } else { String::new() };
            Some((name, inputs))
        } else if pat.contains("Eval::Continue(") {
            let inner = &pat[pat.find("Eval::Continue(").unwrap() + "Eval::Continue(".len()..pat.len() - 1];
            Some(("any".to_string(), inner.to_string()))
        } else if pat == "cont" {
            Some(("any".to_string(), String::new()))
        } else { None };
        if let Some((k, inputs)) = kind {
            self.fact(format!("arm {k} pat={inputs}"));
        }
        syn::visit::visit_arm(self, a);
    }

    fn visit_macro(&mut self, m: &'ast syn::Macro) {
        let name = path_last(&m.path);
        match name.as_str() {
            "_polonius" => {
                if let Ok(syn::Expr::Closure(c)) = syn::parse2::<syn::Expr>(m.tokens.clone()) {
                    let params: Vec<String> = c.inputs.iter().map(norm).collect();
                    self.fact(format!("polonius self={}", params.join(",")));
                    self.visit_expr(&c.body);
                }
            }
            "_exit" => self.fact(format!("exit {}", m.tokens.to_string().split_whitespace().collect::<Vec<_>>().join(""))),
            "_return" => self.fact(format!("polonius-return {}", m.tokens.to_string().split_whitespace().collect::<Vec<_>>().join(""))),
            _ => {}
        }
    }
}

pub fn unimock_ir(attr: &str, trait_src: &str) -> Result<Vec<String>, String> {
    let attr_ts: proc_macro2::TokenStream = attr.parse().map_err(|e| format!("attr lex: {e}"))?;
    let attrs: crate::unimock::Attr = syn::parse2(attr_ts).map_err(|e| format!("attr: {e}"))?;
    // unmock paths for recognising the real-function calls
    let mut unmock_paths = vec![];
    if let Some(pos) = attr.find("unmock_with") {
        let rest = &attr[pos..];
        if let (Some(a), Some(b)) = (rest.find('['), rest.rfind(']')) {
            let mut depth = 0; let mut cur = String::new();
            for ch in rest[a + 1..b].chars() {
                match ch { '(' => { depth += 1; cur.push(ch) } ')' => { depth -= 1; cur.push(ch) } ',' if depth == 0 => { unmock_paths.push(cur.clone()); cur.clear(); } _ => cur.push(ch) }
            }
            unmock_paths.push(cur);
        }
    }
    let unmock_paths: Vec<String> = unmock_paths.iter().map(|p| p.split('(').next().unwrap().split_whitespace().collect::<String>()).filter(|p| p != "_" && !p.is_empty()).collect();
    let item: syn::ItemTrait = syn::parse_str(trait_src).map_err(|e| format!("trait: {e}"))?;
    let ts = crate::unimock::generate(attrs, item).map_err(|e| format!("generate: {e}"))?;
    let file: syn::File = syn::parse2(ts).map_err(|e| format!("output does not parse: {e}"))?;
    let mut out = vec![];
    fn walk_items(items: &[syn::Item], out: &mut Vec<String>, unmock_paths: &[String]) {
        for it in items {
            match it {
                syn::Item::Const(c) => {
                    if let syn::Expr::Block(b) = c.expr.as_ref() {
                        let inner: Vec<syn::Item> = b.block.stmts.iter().filter_map(|s| if let syn::Stmt::Item(i) = s { Some(i.clone()) } else { None }).collect();
                        walk_items(&inner, out, unmock_paths);
                    }
                }
                syn::Item::Mod(m) => {
                    if let Some((_, items)) = &m.content {
                        out.push(format!("mod {} vis={}", m.ident, norm(&m.vis)));
                        walk_items(items, out, unmock_paths);
                    }
                }
                syn::Item::Struct(s) => out.push(format!("struct {} vis={}", s.ident, norm(&s.vis))),
                syn::Item::Impl(im) => {
                    let self_ty = norm(&im.self_ty);
                    let tr = im.trait_.as_ref().map(|(_, p, _)| norm(p)).unwrap_or_default();
                    if tr.ends_with("MockFn") || tr.contains("MockFn<") {
                        let mut inputs = String::new(); let mut kind = String::new(); let mut answer = String::new();
                        let mut info = String::new(); let mut debug = String::new();
                        for ii in &im.items {
                            match ii {
                                syn::ImplItem::Type(t) => {
                                    match t.ident.to_string().as_str() { "Inputs" => inputs = norm(&t.ty), "OutputKind" => kind = norm(&t.ty), "AnswerFn" => answer = norm(&t.ty), _ => {} }
                                }
                                syn::ImplItem::Fn(f) if f.sig.ident == "info" => info = norm(&f.block),
                                syn::ImplItem::Fn(f) if f.sig.ident == "debug_inputs" => {
                                    let pat = f.sig.inputs.first().map(|a| if let syn::FnArg::Typed(pt) = a { norm(&pt.pat) } else { String::new() }).unwrap_or_default();
                                    let body = norm(&f.block);
                                    let arr = body.find("Box::new([").map(|p| body[p + "Box::new([".len()..].trim_end_matches("])}").to_string()).unwrap_or_default();
                                    debug = format!("pat={pat} exprs={arr}");
                                }
                                _ => {}
                            }
                        }
                        let path = info.find(".path(&[").map(|p| { let r = &info[p + 8..]; r[..r.find(']').unwrap_or(0)].to_string() }).unwrap_or_default();
                        out.push(format!("mockfn {} inputs={} kind={} answer={} path={} default_impl={}", self_ty, inputs, kind, answer, path, info.contains(".default_impl()") as u8));
                        if !debug.is_empty() { out.push(format!("  debug {debug}")); }
                    } else if !tr.is_empty() && (self_ty.ends_with("Unimock") || self_ty.ends_with("DefaultImplDelegator")) {
                        let target = if self_ty.ends_with("Unimock") { "unimock" } else { "delegator" };
                        out.push(format!("impl {} for {}", tr, target));
                        for ii in &im.items {
                            if let syn::ImplItem::Fn(f) = ii {
                                let wrap = f.block.stmts.len() == 1 && matches!(f.block.stmts.first(), Some(syn::Stmt::Expr(syn::Expr::Async(_), _)));
                                let track = f.attrs.iter().any(|a| a.path().is_ident("track_caller"));
                                out.push(format!(" fn {} target={} asyncwrap={} async={} track_caller={}", f.sig.ident, target, wrap as u8, f.sig.asyncness.is_some() as u8, track as u8));
                                let mut facts = Facts { out: vec![], method: f.sig.ident.to_string(), unmock_paths: unmock_paths.to_vec(), in_await: false };
                                facts.visit_block(&f.block);
                                out.extend(facts.out);
                            }
                        }
                    }
                }
                _ => {}
            }
        }
    }
    walk_items(&file.items, &mut out, &unmock_paths);
    Ok(out)
}

pub fn matching_ir(src: &str) -> Result<Vec<String>, String> {
    let ts: proc_macro2::TokenStream = src.parse().map_err(|e| format!("lex: {e}"))?;
    let input: crate::matching::MatchingInput = syn::parse2(ts).map_err(|e| format!("parse: {e}"))?;
    let out = crate::matching::generate(input);
    Ok(vec![format!("tokens {}", out.to_string().split_whitespace().collect::<Vec<_>>().join(" "))])
}
