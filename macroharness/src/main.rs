//! macrolib: runs the real `#[unimock]` / `matching!` code generators as a library (their sources are
//! included by path from /repo/unimock_macros/src) on inputs read from stdin and prints a fact-based
//! IR of the generated code, extracted with `syn`.
#![allow(dead_code, unused_imports, clippy::all)]

extern crate proc_macro;

#[path = "/repo/unimock_macros/src/doc.rs"]
mod doc;
#[path = "/repo/unimock_macros/src/matching/mod.rs"]
mod matching;
#[path = "/repo/unimock_macros/src/unimock/mod.rs"]
mod unimock;

mod ir;

use std::io::Read;

fn main() {
    let mut text = String::new();
    std::io::stdin().read_to_string(&mut text).unwrap();
    let mut id = String::new();
    let mut attr = String::new();
    for line in text.lines() {
        let line = line.trim();
        if let Some(rest) = line.strip_prefix("item ") {
            id = rest.to_string();
            attr.clear();
        } else if let Some(rest) = line.strip_prefix("attr ") {
            attr = rest.to_string();
        } else if line == "attr" {
            attr.clear();
        } else if let Some(rest) = line.strip_prefix("trait ") {
            println!("item {id}");
            let res = std::panic::catch_unwind(|| ir::unimock_ir(&attr, rest));
            match res {
                Ok(Ok(lines)) => {
                    for l in lines {
                        println!("{l}");
                    }
                }
                Ok(Err(e)) => println!("macro-error {}", e.replace('\n', " ")),
                Err(_) => println!("macro-panic"),
            }
            println!("end");
        } else if let Some(rest) = line.strip_prefix("matching ") {
            println!("item {id}");
            let res = std::panic::catch_unwind(|| ir::matching_ir(rest));
            match res {
                Ok(Ok(lines)) => {
                    for l in lines {
                        println!("{l}");
                    }
                }
                Ok(Err(e)) => println!("macro-error {}", e.replace('\n', " ")),
                Err(_) => println!("macro-panic"),
            }
            println!("end");
        }
    }
}
