#!/bin/sh
# Build the framework from files on disk only (offline).
set -e
cd "$(dirname "$0")"
cp /repo/Cargo.lock harness/Cargo.lock
(cd lean && lake build Unimock driver)
(cd harness && CARGO_NET_OFFLINE=true cargo build --offline 2>&1 | tail -3)
