#!/bin/sh
# Build the framework from files on disk only (offline).
set -e
cd "$(dirname "$0")"
export CARGO_NET_OFFLINE=true
cp /repo/Cargo.lock harness/Cargo.lock
cp /repo/Cargo.lock macroharness/Cargo.lock
python3 tools/translate_tuples.py
python3 tools/translate_locks.py
python3 tools/translate_mirrors.py
(cd lean && lake build Unimock driver)
(cd harness && cargo build --offline 2>&1 | tail -3)
(cd macroharness && cargo build --offline 2>&1 | tail -3)
